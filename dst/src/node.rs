//! A Node 22 child process running /verif/node/exec.mjs; one per worker thread.

use crate::common::*;
use serde_json::Value;
use std::io::{BufRead, BufReader, Write};
use std::process::{Child, ChildStdin, Command, Stdio};
use std::sync::mpsc::{channel, Receiver};
use std::time::Duration;

pub struct NodeWorker {
    child: Child,
    stdin: ChildStdin,
    rx: Receiver<String>,
    next_id: u64,
    pub restarts: u64,
}

pub fn node_binary() -> String {
    match std::env::var("GE_NODE") {
        Ok(s) if !s.is_empty() => s,
        _ => {
            // fall back to the usual nvm location
            let p = "/root/.nvm/versions/node/v22.22.2/bin/node";
            if std::path::Path::new(p).exists() {
                p.to_string()
            } else {
                harness_error("Node >= 22.6 not found (GE_NODE is empty); the runtime-world simulator cannot run")
            }
        }
    }
}

fn spawn() -> (Child, ChildStdin, Receiver<String>) {
    let dir = verif_dir().join("node");
    let mut child = Command::new(node_binary())
        .arg("--no-warnings")
        .arg("--stack-size=4000")
        .arg("--import")
        .arg(dir.join("reg.mjs"))
        .arg(dir.join("exec.mjs"))
        .env("GE_REPO_DIR", repo_dir())
        .env("NODE_ENV", "development")
        .stdin(Stdio::piped())
        .stdout(Stdio::piped())
        .stderr(Stdio::null())
        .spawn()
        .unwrap_or_else(|e| harness_error(&format!("cannot start node: {}", e)));
    let stdin = child.stdin.take().unwrap();
    let stdout = child.stdout.take().unwrap();
    let (tx, rx) = channel();
    std::thread::spawn(move || {
        let r = BufReader::with_capacity(1 << 20, stdout);
        for line in r.lines() {
            match line {
                Ok(l) => {
                    if tx.send(l).is_err() {
                        break;
                    }
                }
                Err(_) => break,
            }
        }
    });
    (child, stdin, rx)
}

impl NodeWorker {
    pub fn new() -> Self {
        let (child, stdin, rx) = spawn();
        let mut w = NodeWorker { child, stdin, rx, next_id: 1, restarts: 0 };
        // loading and transforming the runtime sources can take long on a busy machine
        let pong = w.call_with_timeout(serde_json::json!({"kind": "ping"}), Duration::from_secs(300));
        match pong {
            Ok(v) if v["status"] == "ok" => {}
            other => harness_error(&format!("node executor did not start (loader failure?): {:?}", other)),
        }
        w
    }

    fn restart(&mut self) {
        let _ = self.child.kill();
        let _ = self.child.wait();
        let (child, stdin, rx) = spawn();
        self.child = child;
        self.stdin = stdin;
        self.rx = rx;
        self.restarts += 1;
    }

    /// Err = the executor hung or died on this job (the job is then a discarded run).
    pub fn call(&mut self, job: Value) -> Result<Value, String> {
        self.call_with_timeout(job, Duration::from_secs(10))
    }

    pub fn call_with_timeout(&mut self, mut job: Value, timeout: Duration) -> Result<Value, String> {
        let id = self.next_id;
        self.next_id += 1;
        job["id"] = serde_json::json!(id);
        let line = serde_json::to_string(&job).unwrap();
        if self.stdin.write_all(line.as_bytes()).and_then(|_| self.stdin.write_all(b"\n")).and_then(|_| self.stdin.flush()).is_err() {
            self.restart();
            return Err("executor pipe closed".into());
        }
        loop {
            match self.rx.recv_timeout(timeout) {
                Ok(l) => {
                    let v: Value = match serde_json::from_str(&l) {
                        Ok(v) => v,
                        Err(_) => continue, // stray output
                    };
                    if v["id"].as_u64() == Some(id) {
                        return Ok(v);
                    }
                }
                Err(_) => {
                    self.restart();
                    return Err("executor timed out or died".into());
                }
            }
        }
    }
}

impl Drop for NodeWorker {
    fn drop(&mut self) {
        let _ = self.child.kill();
        let _ = self.child.wait();
    }
}
