//! Compiler driver: the working-tree template compiler as a function from sources to a bundle.

use glass_easel_template_compiler::TmplGroup;

pub struct Compiled {
    pub bundle: String,
    /// number of diagnostics per file at Warn level or above
    pub warn_or_worse: usize,
}

pub fn compile_group(files: &[(String, String)], scripts: &[(String, String)]) -> Result<Compiled, String> {
    compile_group_opt(files, scripts, false)
}

pub fn compile_group_opt(files: &[(String, String)], scripts: &[(String, String)], dev: bool) -> Result<Compiled, String> {
    // a compiler panic must not take the simulator down
    let r = std::panic::catch_unwind(std::panic::AssertUnwindSafe(|| {
        let mut g = if dev { TmplGroup::new_dev() } else { TmplGroup::new() };
        let mut warn = 0;
        for (p, s) in files {
            let ws = g.add_tmpl(p, s);
            warn += ws.iter().filter(|w| w.level() >= glass_easel_template_compiler::parse::ParseErrorLevel::Warn).count();
        }
        for (p, s) in scripts {
            g.add_script(p, s);
        }
        g.get_tmpl_gen_object_groups().map(|b| Compiled { bundle: b, warn_or_worse: warn }).map_err(|e| e.message)
    }));
    match r {
        Ok(r) => r,
        Err(_) => Err("compiler panicked".into()),
    }
}
