//! `./check selftest conformance`: the repository's own jest suites for the template engine, run
//! under the loader and shims of /verif/node (see node/conformance.mjs). Exit 2 on any deviation.

use crate::common::*;
use crate::node::node_binary;

pub fn run() -> i32 {
    let dir = verif_dir().join("node");
    let st = std::process::Command::new(node_binary())
        .arg("--no-warnings")
        .arg("--import")
        .arg(dir.join("reg.mjs"))
        .arg(dir.join("conformance.mjs"))
        .env("GE_REPO_DIR", repo_dir())
        .env("GE_DST_BIN", std::env::current_exe().unwrap())
        .status();
    match st {
        Ok(s) if s.code() == Some(0) => 0,
        Ok(_) => {
            println!("HARNESS-ERROR: conformance suite deviates (loader fidelity or shims)");
            2
        }
        Err(e) => harness_error(&format!("cannot run node: {}", e)),
    }
}
