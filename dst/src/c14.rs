//! C14 — stringify is a faithful, stable inverse of parse.
//! DST decides the behavioural clause: the original template and its re-printed forms (plain and
//! with scope-name mangling) are instantiated side by side and driven in lock-step by one
//! schedule. The fixpoint and diagnostics clauses ride along as per-world assertions.

use crate::common::*;
use crate::compile::compile_group;
use crate::gen::{generate, Prop};
use crate::rng::fnv;
use crate::rt::{interpret, seed_of, with_worker, RunResult};
use crate::world::*;
use crate::Args;
use glass_easel_template_compiler::parse::{parse, ParseErrorLevel};
use glass_easel_template_compiler::stringify::{Stringifier, Stringify};
use serde_json::{json, Value};
use std::time::Instant;

pub struct Reprint {
    pub text: String,
    /// the input has a Fatal diagnostic (unterminated tag, broken expression ...): only a
    /// best-effort tree exists, nothing is asserted about it
    pub fatal: bool,
    /// diagnostics at Warn level or above produced by parsing the input
    pub warn_or_worse: Vec<String>,
    /// their kinds
    pub kinds: Vec<String>,
}

pub const PARSER_PANICKED: &str = "parser panicked";
pub const STRINGIFIER_PANICKED: &str = "stringifier panicked";

pub fn reprint(path: &str, src: &str, mangle: bool) -> Result<Reprint, String> {
    // (a panic of the parser and a panic of the printer are different things for C14)
    let parsed = std::panic::catch_unwind(std::panic::AssertUnwindSafe(|| parse(path, src)));
    let Ok((template, mut state)) = parsed else {
        return Err(PARSER_PANICKED.into());
    };
    let r = std::panic::catch_unwind(std::panic::AssertUnwindSafe(move || {
        // "not clean": any Warn/Error/Fatal, or an unknown meta tag (junk such as `<!x` is only a Note)
        let all = state.take_warnings();
        let fatal_seen = all.iter().any(|w| w.level() >= ParseErrorLevel::Fatal);
        let warn: Vec<String> = all
            .iter()
            .filter(|w| w.level() >= ParseErrorLevel::Warn || w.kind == glass_easel_template_compiler::parse::ParseErrorKind::UnknownMetaTag)
            .map(|w| format!("{}", w))
            .collect();
        let kinds: Vec<String> = all
            .iter()
            .filter(|w| w.level() >= ParseErrorLevel::Warn)
            .map(|w| format!("{:?}", w.kind))
            .collect();
        let fatal = false;
        let mut st = Stringifier::new(String::new(), path, src);
        st.set_mangling(mangle);
        template.stringify_write(&mut st).map_err(|e| e.to_string())?;
        let (text, _map) = st.finish();
        Ok::<Reprint, String>(Reprint { text, warn_or_worse: warn, kinds, fatal: fatal || fatal_seen })
    }));
    match r {
        Ok(x) => x,
        Err(_) => Err(STRINGIFIER_PANICKED.into()),
    }
}

fn mangled_texts(list: &[(String, String)]) -> String {
    list.iter().map(|x| x.1.as_str()).collect::<Vec<_>>().join("\n")
}

/// Does the mangled text reference mangled names under a wx:for that declares none?
pub fn mangled_for_undeclared(text: &str) -> bool {
    text.contains("wx:for=") && text.contains("_$") && !text.contains("wx:for-item=\"_$") && !text.contains("wx:for-index=\"_$")
}

/// The listed finding C14-mangled-for-scope-undeclared, repaired at the call site so that the rest
/// of the mangled output can still be judged: every `wx:for` of the mangled text gets the
/// declarations `wx:for-item="_$N" wx:for-index="_$N+1"` the stringifier leaves out, N being the
/// number of scope names open at that point (loops open two, every `slot:x="_$k"` reference one).
/// Returns None when the text does not have the canonical shape this scanner expects.
pub fn declare_mangled_for_names(text: &str) -> Option<String> {
    let b: Vec<char> = text.chars().collect();
    let mut out = String::with_capacity(text.len() + 64);
    // per open element: how many scope names it opened
    let mut stack: Vec<(String, usize)> = vec![];
    let mut depth = 0usize;
    let mut i = 0;
    while i < b.len() {
        if b[i] != '<' {
            // text: copy up to the next tag, leaving bindings alone
            if b[i] == '{' && i + 1 < b.len() && b[i + 1] == '{' {
                let mut j = i + 2;
                while j + 1 < b.len() && !(b[j] == '}' && b[j + 1] == '}') {
                    j += 1;
                }
                let end = (j + 2).min(b.len());
                out.extend(&b[i..end]);
                i = end;
                continue;
            }
            out.push(b[i]);
            i += 1;
            continue;
        }
        // comment
        if b[i..].starts_with(&['<', '!', '-', '-']) {
            let mut j = i + 4;
            while j + 2 < b.len() && !(b[j] == '-' && b[j + 1] == '-' && b[j + 2] == '>') {
                j += 1;
            }
            let end = (j + 3).min(b.len());
            out.extend(&b[i..end]);
            i = end;
            continue;
        }
        // find the end of the tag, outside quotes
        let mut j = i + 1;
        let mut quote: Option<char> = None;
        while j < b.len() {
            match quote {
                Some(q) if b[j] == q => quote = None,
                Some(_) => {}
                None if b[j] == '"' || b[j] == '\'' => quote = Some(b[j]),
                None if b[j] == '>' => break,
                None => {}
            }
            j += 1;
        }
        if j >= b.len() {
            return None;
        }
        let tag: String = b[i..=j].iter().collect();
        if tag.starts_with("</") {
            let name: String = tag[2..tag.len() - 1].trim().to_string();
            match stack.pop() {
                Some((n, k)) if n == name => depth -= k,
                _ => return None,
            }
            out.push_str(&tag);
            i = j + 1;
            continue;
        }
        let self_closing = tag.ends_with("/>");
        let name: String = tag[1..].chars().take_while(|c| !c.is_whitespace() && *c != '/' && *c != '>').collect();
        if name == "wxs" {
            // a script module is a scope name of the whole file
            depth += 1;
        }
        if name == "wxs" && !self_closing {
            // inline script: copy verbatim up to its end tag
            let rest: String = b[j + 1..].iter().collect();
            let end = rest.find("</wxs>")?;
            out.push_str(&tag);
            out.push_str(&rest[..end + 6]);
            i = j + 1 + rest[..end + 6].chars().count();
            continue;
        }
        let mut opened = 0usize;
        let mut tag_out = tag.clone();
        if tag.contains(" wx:for=\"") {
            if tag.contains(" wx:for-item=") || tag.contains(" wx:for-index=") {
                return None;
            }
            let decl = format!(" wx:for-item=\"_${}\" wx:for-index=\"_${}\"", depth, depth + 1);
            let cut = if self_closing { tag.len() - 2 } else { tag.len() - 1 };
            tag_out = format!("{}{}{}", &tag[..cut], decl, &tag[cut..]);
            opened += 2;
        }
        // slot value references are declared by the stringifier itself
        opened += regex::Regex::new(r#" slot:[^=\s"]+="_\$\d+""#).map(|re| re.find_iter(&tag).count()).unwrap_or(0);
        out.push_str(&tag_out);
        if !self_closing {
            stack.push((name, opened));
            depth += opened;
        }
        i = j + 1;
    }
    if stack.is_empty() {
        Some(out)
    } else {
        None
    }
}

fn known_listed(id: &str) -> bool {
    static LISTED: std::sync::OnceLock<Vec<String>> = std::sync::OnceLock::new();
    LISTED.get_or_init(|| load_known_findings().into_iter().filter(|k| k.kind == "finding").map(|k| k.id).collect()).iter().any(|x| x == id)
}

/// A listed C14 finding that is identified by what the source or its re-printed text looks like.
fn known_by_text(k: &KnownFinding, class: &str, source: &str, printed: &str) -> bool {
    if k.kind != "finding" || k.property != "C14" || (k.source_regex.is_empty() && k.printed_regex.is_empty()) {
        return false;
    }
    if !(k.classes.is_empty() || k.classes.iter().any(|c| c == class)) {
        return false;
    }
    let hit = |re: &str, text: &str| !re.is_empty() && regex::Regex::new(re).map(|re| re.is_match(text)).unwrap_or(false);
    hit(&k.source_regex, source) || hit(&k.printed_regex, printed)
}

fn discard(reason: &str, key: &str) -> RunResult {
    let mut stats = Stats::default();
    stats.add(key, 1);
    RunResult { outcome: Outcome::Discard(reason.to_string()), stats, log_hash: String::new(), executable: false, step: 0, raw: Value::Null }
}

fn violated(class: &str, detail: String, stats: Stats) -> RunResult {
    RunResult { outcome: Outcome::Violated(Violation { class: class.to_string(), detail }), stats, log_hash: fnv(class.as_bytes()).to_string(), executable: true, step: 0, raw: Value::Null }
}

pub fn run_explicit(ew: &Value, want_log: bool) -> RunResult {
    run_explicit_opt(ew, want_log, true)
}

/// `apply_known = false` judges the world without the call-site pre-filter of listed findings.
pub fn run_explicit_opt(ew: &Value, want_log: bool, apply_known: bool) -> RunResult {
    let pairs = |k: &str| -> Vec<(String, String)> {
        ew[k].as_array().map(|a| a.iter().map(|x| (x[0].as_str().unwrap_or("").to_string(), x[1].as_str().unwrap_or("").to_string())).collect()).unwrap_or_default()
    };
    let sources = pairs("sources");
    let scripts = pairs("scripts");
    let mut stats = Stats::default();
    let mut printed = vec![];
    let mut mangled = vec![];
    for (p, s) in &sources {
        for (mangle, out) in [(false, &mut printed), (true, &mut mangled)] {
            let r1 = match reprint(p, s, mangle) {
                Ok(r) => r,
                // the parser crashing on the source itself is not the printer's doing
                Err(e) if e == PARSER_PANICKED => return discard("the parser panics on the source", "discard.parser_panicked_on_source"),
                Err(e) if e == STRINGIFIER_PANICKED => {
                    return violated("stringifier_panics", format!("file {}: printing the parsed template panics\n source : {}", p, s), stats);
                }
                Err(e) => return discard(&format!("unexecutable: {}", e), "discard.stringifier_failed"),
            };
            if r1.fatal {
                return discard("source has a Fatal diagnostic: nothing is asserted about best-effort trees", "discard.source_with_fatal_diagnostic");
            }
            // fixpoint: printing the re-parsed text gives the same text
            let r2 = match reprint(p, &r1.text, mangle) {
                Ok(r) => r,
                Err(e) if e == PARSER_PANICKED || e == STRINGIFIER_PANICKED => {
                    return violated(
                        "printed_text_panics",
                        format!("file {}: {} on the re-printed text\n source : {}\n printed: {}", p, e, s, r1.text),
                        stats,
                    );
                }
                Err(e) => return discard(&format!("unexecutable: {}", e), "discard.stringifier_failed"),
            };
            // the fixpoint clause is asserted for every source without a Fatal diagnostic, the
            // diagnostics clause for sources that parse without Warn/Error themselves
            stats.add("probe.fixpoint_checked", 1);
            if !r1.warn_or_worse.is_empty() {
                stats.add("probe.fixpoint_checked_ill_formed", 1);
            }
            // (the fixpoint clause holds for ill-formed sources, too: whatever tree the parser
            // recovered, its printed form must read back as itself)
            if r2.text != r1.text {
                return violated(
                    if mangle { "reprint_not_fixpoint_mangled" } else { "reprint_not_fixpoint" },
                    format!("file {}: print(parse(print(parse(t)))) differs from print(parse(t))\n source : {}\n print 1: {}\n print 2: {}", p, s, r1.text, r2.text),
                    stats,
                );
            }
            // no new diagnostic above Note: asserted when the original had none
            if r1.warn_or_worse.is_empty() {
                stats.add("probe.diagnostics_checked", 1);
                if !r2.warn_or_worse.is_empty() {
                    return violated(
                        if mangle { "reprint_new_diagnostic_mangled" } else { "reprint_new_diagnostic" },
                        format!("file {}: the original parses without Warn/Error, its re-printed text does not: {:?}\n source : {}\n printed: {}", p, r2.warn_or_worse, s, r1.text),
                        stats,
                    );
                }
            } else {
                stats.add("probe.ill_formed_source", 1);
                // an ill-formed source: its printed form may repeat diagnostics of the original
                // (a junk attribute name is printed as it is), but a kind of diagnostic the
                // original did not have is new
                stats.add("probe.diagnostic_kinds_checked_ill_formed", 1);
                if let Some(k) = r2.kinds.iter().find(|k| !r1.kinds.contains(k)) {
                    return violated(
                        if mangle { "reprint_new_diagnostic_kind_mangled" } else { "reprint_new_diagnostic_kind" },
                        format!("file {}: the re-printed text of an ill-formed source has a diagnostic of a kind the original did not have: {} (original: {:?})\n source : {}\n printed: {}", p, k, r1.kinds, s, r1.text),
                        stats,
                    );
                }
            }
            out.push((p.clone(), r1.text));
        }
    }
    let a = compile_group(&sources, &scripts);
    let b = compile_group(&printed, &scripts);
    // the listed finding (mangled wx:for names are never declared) is repaired at its call site, so
    // that everything else the mangled output says is still judged
    let mut mangled_repaired = false;
    let mut c = compile_group(&mangled, &scripts);
    if apply_known && known_listed("C14-mangled-for-scope-undeclared") && mangled_for_undeclared(&mangled_texts(&mangled)) {
        let repaired: Option<Vec<(String, String)>> = mangled.iter().map(|(p, t)| if mangled_for_undeclared(t) { declare_mangled_for_names(t).map(|x| (p.clone(), x)) } else { Some((p.clone(), t.clone())) }).collect();
        if let Some(rep) = repaired {
            if let Ok(cb) = compile_group(&rep, &scripts) {
                // every mangled name must now be bound: no read of a data field called _$n is left
                if !regex::Regex::new(r"D\._\$\d").map(|re| re.is_match(&cb.bundle)).unwrap_or(true) {
                    stats.add("probe.mangled_for_names_declared_by_harness", 1);
                    c = Ok(cb);
                    mangled = rep;
                    mangled_repaired = true;
                }
            }
        }
    }
    let (a, b, c) = match (a, b, c) {
        (Ok(a), Ok(b), Ok(c)) => (a, b, c),
        _ => return discard("unexecutable: compile failed", "discard.compile_failed"),
    };
    let job = json!({
        "kind": "lockstep",
        "bundles": [a.bundle, b.bundle, c.bundle],
        "bundleLabels": ["original", "re-printed", "re-printed with mangling"],
        "components": ew["components"],
        "data": ew["data"],
        "config": ew["config"],
        "schedule": ew["schedule"],
        "wantLog": want_log,
    });
    let mut r = interpret("C14", with_worker(|w| w.call(job)));
    r.stats.merge(&stats);
    // the plain re-print is judged first; the mangled one only if the plain one agrees throughout
    if let Some(vs) = r.raw["violations"].as_array() {
        let pick = vs.iter().find(|v| v["instance"] == 1).or_else(|| vs.iter().find(|v| v["instance"] == 2));
        if let Some(v) = pick {
            let is_mangled = v["instance"] == 2;
            let class = format!("{}{}", if is_mangled { "mangled_" } else { "" }, v["class"].as_str().unwrap_or(""));
            // known call site: in mangling mode the stringifier renames wx:for item/index references
            // but never declares the new names (pinned by the repository's own tests)
            if apply_known && is_mangled && !mangled_repaired && mangled_for_undeclared(&mangled_texts(&mangled)) && known_listed("C14-mangled-for-scope-undeclared") {
                r.stats.add("probe.known_finding.C14-mangled-for-scope-undeclared", 1);
            } else {
                r.outcome = Outcome::Violated(Violation { class, detail: v["detail"].as_str().unwrap_or("").to_string() });
            }
        }
    }
    if let Outcome::Violated(v) = &mut r.outcome {
        let find = |list: &Vec<(String, String)>| list.iter().filter(|(p, _)| !p.starts_with("comp/")).map(|(p, s)| format!("  [{}] {}", p, s)).collect::<Vec<_>>().join("\n");
        v.detail = format!("{}\n original:\n{}\n re-printed:\n{}\n mangled:\n{}", v.detail, find(&sources), find(&printed), find(&mangled));
    }
    r
}

// ---------------------------------------------------------------------------------------------

fn world_signature(w: &World) -> u64 {
    let mut s = String::new();
    for (_, src) in w.sources() {
        s.push_str(&src);
    }
    for op in &w.schedule {
        s.push_str(op[0].as_str().unwrap_or(""));
        s.push(',');
    }
    fnv(s.as_bytes())
}

pub struct OneRun {
    pub result: RunResult,
}

pub fn one_run(seed: u64, i: u64) -> OneRun {
    let w = generate(seed_of(seed, Prop::C14, i), Prop::C14);
    let mut r = run_explicit(&world_to_json(&w), false);
    let sig = world_signature(&w);
    let evals = r.stats.counters.get("step.oracle_evaluations").copied().unwrap_or(0);
    let flushes = r.stats.counters.get("step.flush").copied().unwrap_or(0);
    r.stats.signatures.insert(sig);
    if r.executable && evals >= 2 && flushes >= 1 {
        r.stats.nontrivial_signatures.insert(sig);
    }
    if w.root_file().raw.is_some() {
        r.stats.add("cfg.mutated_source", 1);
    } else {
        r.stats.add("cfg.generated_source", 1);
    }
    for op in &w.schedule {
        r.stats.add(&format!("cfg.op.{}", op[0].as_str().unwrap_or("")), 1);
    }
    for t in world_tags(&w) {
        if !t.starts_with("op_") {
            r.stats.add(&format!("cfg.feature.{}", t), 1);
        }
    }
    OneRun { result: r }
}

const RULE: &str = "one run = one generated world (as for C06, plus literal text with entities / brace look-alikes, and for a third of the runs a byte/token mutation of the root source) whose every WXML file is re-printed twice (plain, scope-name mangling) by the working-tree stringifier; the three bundles are instantiated in the real runtime and driven in lock-step by one explicit schedule; after creation and after every flush the three node trees must be equal. Per file the run also asserts print(parse(print(parse(t)))) == print(parse(t)) and - when the original parses without Warn/Error - that the re-printed text does too. distinct = hash(sources x op-kind sequence); non-trivial = executable with at least one flush and two lock-step comparisons.";

pub fn check(args: &Args) -> i32 {
    let t0 = Instant::now();
    let thorough = args.tier == "thorough";
    let n = args.runs.unwrap_or(if thorough { 800_000 } else { 10_000 });
    let seed = args.seed;
    let outs = parallel_map(n, args.workers, move |i| one_run(seed, i));
    let mut stats = Stats::default();
    let mut violations: Vec<(u64, Violation)> = vec![];
    let mut executable = 0u64;
    let mut unexec_reasons: std::collections::BTreeMap<String, u64> = Default::default();
    for (i, o) in outs.iter().enumerate() {
        stats.merge(&o.result.stats);
        if o.result.executable {
            executable += 1;
        } else if let Outcome::Discard(r) = &o.result.outcome {
            let key: String = r.chars().take(90).collect();
            *unexec_reasons.entry(key).or_insert(0) += 1;
        }
        if let Outcome::Violated(v) = &o.result.outcome {
            violations.push((i as u64, v.clone()));
        }
    }
    let run_phase_s = t0.elapsed().as_secs_f64();
    let known = load_known_findings();
    let mut known_reported: Vec<Value> = vec![];
    let mut known_seen: std::collections::BTreeSet<String> = Default::default();
    let mut exit = 0;
    let mut new_violations = 0u64;
    let mut reported: Vec<String> = vec![];
    let max_report: u64 = std::env::var("GE_MAX_REPORT").ok().and_then(|s| s.parse().ok()).unwrap_or(3);
    let mut shrunk = 0;
    for (run, v) in &violations {
        if new_violations >= max_report || shrunk >= 60 {
            break;
        }
        shrunk += 1;
        let w = generate(seed_of(seed, Prop::C14, *run), Prop::C14);
        let (w2, v2, tried) = shrink_c14(&w, &v.class, 400);
        let tags = world_tags(&w2);
        let root_src = w2.root_file().to_wxml();
        let root_printed = reprint(&w2.root_path, &root_src, false).map(|r| r.text).unwrap_or_default();
        let by_source = known.iter().find(|k| known_by_text(k, &v2.class, &root_src, &root_printed));
        if let Some(k) = by_source.or_else(|| crate::shrink::match_known(&known, "C14", &v2.class, &tags, &[])) {
            if known_seen.insert(k.id.clone()) {
                println!("KNOWN-FINDING: property=C14 {}", k.what);
                known_reported.push(json!({"id": k.id, "what": k.what, "first_run": run}));
            }
            stats.add(&format!("probe.known_finding.{}", k.id), 1);
            continue;
        }
        let sig = format!("{}|{:?}", v2.class, tags);
        if reported.contains(&sig) {
            continue;
        }
        reported.push(sig);
        let mut rv = world_to_json(&w2);
        rv["property"] = json!("C14");
        rv["engine"] = json!("lockstep");
        rv["verif_seed"] = json!(seed.to_string());
        rv["run_index"] = json!(run);
        rv["class"] = json!(v2.class);
        rv["detail"] = json!(v2.detail);
        rv["note"] = json!(format!("minimised with {} candidate executions", tried));
        let path = write_replay("C14", &format!("seed{}-run{}", seed, run), &rv);
        let confirmed = std::process::Command::new(std::env::current_exe().unwrap())
            .args(["replay", path.to_str().unwrap(), "--quiet"])
            .stdout(std::process::Stdio::null())
            .status()
            .map(|s| s.code() == Some(1))
            .unwrap_or(false);
        if !confirmed {
            harness_error(&format!("violation of class {} did not reproduce from its replay file {} in a fresh process", v2.class, path.display()));
        }
        println!("C14 violation class={} run={} tags={:?}\n{}", v2.class, run, tags, v2.detail);
        println!("  data: {}\n  schedule: {}", w2.data, Value::Array(w2.schedule.clone()));
        println!("VIOLATION property=C14 replay={}", path.display());
        new_violations += 1;
        exit = 1;
    }
    // the systematic part: every nesting of two operators, both groupings
    let grid_base = crate::c14grid::count();
    let grid_rounds: u64 = if thorough { 12 } else { 1 };
    let grid_n = grid_base * grid_rounds;
    let grid_world = move |i: u64| {
        let round = i / grid_base.max(1);
        let s = if round == 0 { seed } else { crate::rng::mix(seed, "c14grid.round", round) };
        crate::c14grid::world(s, i % grid_base.max(1))
    };
    let gouts = parallel_map(grid_n, args.workers, move |i| run_explicit(&grid_world(i), false));
    let mut grid_reported: Vec<String> = vec![];
    let mut grid_violating = 0u64;
    let mut grid_executed = 0u64;
    for (i, g) in gouts.iter().enumerate() {
        stats.merge(&g.stats);
        stats.add("grid.worlds", 1);
        if g.executable {
            grid_executed += 1;
        }
        if let Outcome::Violated(v) = &g.outcome {
            grid_violating += 1;
            let mut rv = grid_world(i as u64);
            let src = rv["sources"][0][1].as_str().unwrap_or("").to_string();
            let printed = reprint("index", &src, false).map(|r| r.text).unwrap_or_default();
            if let Some(k) = known.iter().find(|k| known_by_text(k, &v.class, &src, &printed)) {
                if known_seen.insert(k.id.clone()) {
                    println!("KNOWN-FINDING: property=C14 {}", k.what);
                    known_reported.push(json!({"id": k.id, "what": k.what, "first_run": format!("grid-{}", i)}));
                }
                continue;
            }
            let sig = format!("{}|{}", v.class, rv["grid"]["expression"]);
            if grid_reported.len() as u64 >= max_report || grid_reported.contains(&sig) {
                continue;
            }
            grid_reported.push(sig);
            rv["property"] = json!("C14");
            rv["verif_seed"] = json!(seed.to_string());
            rv["run_index"] = json!(format!("grid-{}", i));
            rv["class"] = json!(v.class);
            rv["detail"] = json!(v.detail);
            let path = write_replay("C14", &format!("seed{}-grid{}", seed, i), &rv);
            let confirmed = std::process::Command::new(std::env::current_exe().unwrap())
                .args(["replay", path.to_str().unwrap(), "--quiet"])
                .stdout(std::process::Stdio::null())
                .status()
                .map(|s| s.code() == Some(1))
                .unwrap_or(false);
            if !confirmed {
                harness_error(&format!("grid violation of class {} did not reproduce from its replay file {} in a fresh process", v.class, path.display()));
            }
            println!("C14 violation class={} grid world {} ({})\n{}", v.class, i, rv["grid"], v.detail);
            println!("  data: {}\n  schedule: {}", rv["data"], rv["schedule"]);
            println!("VIOLATION property=C14 replay={}", path.display());
            new_violations += 1;
            exit = 1;
        }
    }
    for k in known.iter().filter(|k| k.kind == "finding" && k.property == "C14") {
        if let Some(rp) = &k.replay {
            if let Ok(v) = read_json(&verif_dir().join(rp)) {
                match run_explicit_opt(&v, false, false).outcome {
                    Outcome::Violated(_) => {
                        if known_seen.insert(k.id.clone()) {
                            println!("KNOWN-FINDING: property=C14 {}", k.what);
                            known_reported.push(json!({"id": k.id, "what": k.what, "from": "replay of the listed file"}));
                        }
                    }
                    _ => println!("INFO: known finding {} no longer reproduces from {} (it should become a `fixed` entry)", k.id, rp),
                }
            }
        }
    }
    let mut samples = vec![];
    for i in 0..3u64.min(n) {
        let w = generate(seed_of(seed, Prop::C14, i), Prop::C14);
        let root = w.root_file().to_wxml();
        let printed = reprint(&w.root_path, &root, false).map(|r| r.text).unwrap_or_default();
        let mangled = reprint(&w.root_path, &root, true).map(|r| r.text).unwrap_or_default();
        samples.push(json!({"run": i, "root_source": root, "re_printed": printed, "re_printed_mangled": mangled, "data": w.data, "schedule": w.schedule}));
    }
    let exec_rate = executable as f64 / n.max(1) as f64;
    write_evidence(EvidenceInput {
        property: "C14",
        tier: &args.tier,
        seed,
        level: "exploration",
        evaluations: n,
        rule: RULE,
        samples,
        stats: &stats,
        wall_s: t0.elapsed().as_secs_f64(),
        violations: new_violations,
        known_findings: known_reported,
        assumptions: vec![
            "loader fidelity and empty backends as for C06".into(),
            "the diagnostics clause is asserted only for sources that themselves parse without Warn/Error; for ill-formed (mutated) sources only the behavioural and fixpoint clauses are asserted, and only when all three bundles are executable".into(),
            "DST adds nothing to the two pure clauses (fixpoint, diagnostics); they ride along because their failure would make the lock-step meaningless".into(),
        ],
        real_vs_stub: json!({
            "real": ["parser, stringifier (plain and mangling), proc_gen from /repo working tree", "glass-easel/src runtime (type-stripped)"],
            "simulated": ["timers and clock"],
            "stub": ["empty backends", "TypeScript compilation replaced by the loader"],
        }),
        extra: json!({
            "executable_worlds": executable,
            "executable_rate": exec_rate,
            "unexecutable_reasons": unexec_reasons,
            "violating_runs_before_dedup": violations.len(),
            "run_phase_wall_s": run_phase_s,
            "grid": {"worlds": grid_n, "executed": grid_executed, "violating": grid_violating, "what": "systematic sweep: every nesting of two operators of the expression grammar (22 binary, 6 unary, ?:, member, call, literals) in both groupings, in three binding positions, original / re-printed / re-printed with mangling in lock-step over seeded numeric data (6 update rounds)"},
        }),
    });
    println!(
        "C14 {}: runs={} executable={:.1}% lockstep_comparisons={} distinct_nontrivial={} violating_runs={} new_violations={} run_phase={:.1}s wall={:.1}s",
        args.tier,
        n,
        exec_rate * 100.0,
        stats.counters.get("step.oracle_evaluations").copied().unwrap_or(0),
        stats.nontrivial_signatures.len(),
        violations.len(),
        new_violations,
        run_phase_s,
        t0.elapsed().as_secs_f64()
    );
    if exit == 0 && n >= 100 && exec_rate < 0.6 {
        harness_error(&format!("only {:.1}% of generated worlds are executable: {:?}", exec_rate * 100.0, unexec_reasons));
    }
    exit
}

pub fn replay(v: &Value, path: &str, quiet: bool) -> i32 {
    let r = run_explicit_opt(v, !quiet, false);
    match &r.outcome {
        Outcome::Violated(x) => {
            if !quiet {
                println!("replay {}: violation class={}\n{}", path, x.class, x.detail);
                println!("VIOLATION property=C14 replay={}", path);
            }
            1
        }
        Outcome::Discard(d) => {
            if !quiet {
                println!("replay {}: run discarded on the current tree: {}", path, d);
            }
            0
        }
        Outcome::Held => {
            if !quiet {
                println!("replay {}: no violation on the current tree", path);
            }
            0
        }
    }
}

// ---------------------------------------------------------------------------------------------
// shrinking: AST worlds reuse the runtime shrinker's candidates; mutated (raw) sources shrink as text

fn text_candidates(s: &str) -> Vec<String> {
    let mut out = vec![];
    let chars: Vec<char> = s.chars().collect();
    let n = chars.len();
    let mut size = n / 2;
    while size >= 1 {
        let mut start = 0;
        while start < n {
            let end = (start + size).min(n);
            let t: String = chars[..start].iter().chain(chars[end..].iter()).collect();
            out.push(t);
            start += size;
        }
        if size == 1 {
            break;
        }
        size /= 2;
        if out.len() > 400 {
            break;
        }
    }
    out
}

pub fn shrink_c14(w: &World, class: &str, budget: usize) -> (World, Violation, usize) {
    let mut cur = w.clone();
    let mut cur_v = Violation { class: class.to_string(), detail: String::new() };
    let mut tried = 0usize;
    let check = |c: &World, tried: &mut usize| -> Option<Violation> {
        *tried += 1;
        match run_explicit(&world_to_json(c), false).outcome {
            Outcome::Violated(v) if v.class == class => Some(v),
            _ => None,
        }
    };
    if let Some(v) = check(&cur, &mut tried) {
        cur_v = v;
    }
    let mut progress = true;
    while progress && tried < budget {
        progress = false;
        // schedule
        'ops: loop {
            for i in (0..cur.schedule.len()).rev() {
                if tried >= budget {
                    break 'ops;
                }
                let mut c = cur.clone();
                c.schedule.remove(i);
                if let Some(v) = check(&c, &mut tried) {
                    cur = c;
                    cur_v = v;
                    progress = true;
                    continue 'ops;
                }
            }
            break;
        }
        let root_i = cur.files.iter().position(|f| f.path == cur.root_path).unwrap();
        if cur.files[root_i].raw.is_some() {
            'text: loop {
                let src = cur.files[root_i].raw.clone().unwrap();
                for t in text_candidates(&src) {
                    if tried >= budget {
                        break 'text;
                    }
                    let mut c = cur.clone();
                    c.files[root_i].raw = Some(t);
                    if let Some(v) = check(&c, &mut tried) {
                        cur = c;
                        cur_v = v;
                        progress = true;
                        continue 'text;
                    }
                }
                break;
            }
        } else {
            for stage in 1..5 {
                'stage: loop {
                    for c in crate::shrink::world_candidates(&cur, stage, 0) {
                        if tried >= budget {
                            break 'stage;
                        }
                        if let Some(v) = check(&c, &mut tried) {
                            cur = c;
                            cur_v = v;
                            progress = true;
                            continue 'stage;
                        }
                    }
                    break;
                }
            }
        }
    }
    (cur, cur_v, tried)
}

pub fn determinism_hashes(seed: u64, n: u64, workers: usize) -> Vec<String> {
    parallel_map(n, workers, move |i| {
        let r = one_run(seed, i);
        format!("{}|{:?}|{:?}", r.result.log_hash, r.result.stats.counters, matches!(r.result.outcome, Outcome::Violated(_)))
    })
}
