//! The only source of choices in the simulator: SplitMix64 seeding xoshiro256**.
//! Nothing here reads a clock, an address or a hash-map order.

#[derive(Clone, Debug)]
pub struct Rng {
    s: [u64; 4],
}

pub fn splitmix(x: &mut u64) -> u64 {
    *x = x.wrapping_add(0x9E37_79B9_7F4A_7C15);
    let mut z = *x;
    z = (z ^ (z >> 30)).wrapping_mul(0xBF58_476D_1CE4_E5B9);
    z = (z ^ (z >> 27)).wrapping_mul(0x94D0_49BB_1331_11EB);
    z ^ (z >> 31)
}

/// FNV-1a, used to fold a label (property id, stream name) into a seed and as the event-log hash.
pub fn fnv(s: &[u8]) -> u64 {
    let mut h = 0xcbf2_9ce4_8422_2325u64;
    for b in s {
        h ^= *b as u64;
        h = h.wrapping_mul(0x0000_0100_0000_01B3);
    }
    h
}

pub fn mix(seed: u64, label: &str, i: u64) -> u64 {
    let mut x = seed ^ fnv(label.as_bytes()).rotate_left(17) ^ i.wrapping_mul(0xD6E8_FEB8_6659_FD93);
    let a = splitmix(&mut x);
    let b = splitmix(&mut x);
    a ^ b.rotate_left(31)
}

impl Rng {
    pub fn new(seed: u64) -> Self {
        let mut x = seed;
        let s = [splitmix(&mut x), splitmix(&mut x), splitmix(&mut x), splitmix(&mut x)];
        Rng { s }
    }
    /// An independent stream for one concern (so shrinking one part does not perturb the others).
    pub fn fork(seed: u64, label: &str) -> Self {
        Rng::new(mix(seed, label, 0))
    }
    pub fn next(&mut self) -> u64 {
        let r = self.s[1].wrapping_mul(5).rotate_left(7).wrapping_mul(9);
        let t = self.s[1] << 17;
        self.s[2] ^= self.s[0];
        self.s[3] ^= self.s[1];
        self.s[1] ^= self.s[2];
        self.s[0] ^= self.s[3];
        self.s[2] ^= t;
        self.s[3] = self.s[3].rotate_left(45);
        r
    }
    /// uniform in 0..n (n > 0)
    pub fn below(&mut self, n: usize) -> usize {
        debug_assert!(n > 0);
        ((self.next() >> 11) as u128 * n as u128 >> 53) as usize
    }
    pub fn range(&mut self, lo: usize, hi_incl: usize) -> usize {
        lo + self.below(hi_incl - lo + 1)
    }
    pub fn chance(&mut self, p: f64) -> bool {
        ((self.next() >> 11) as f64) / ((1u64 << 53) as f64) < p
    }
    pub fn pick<'a, T>(&mut self, a: &'a [T]) -> &'a T {
        &a[self.below(a.len())]
    }
    pub fn shuffle<T>(&mut self, a: &mut [T]) {
        for i in (1..a.len()).rev() {
            let j = self.below(i + 1);
            a.swap(i, j);
        }
    }
    /// weighted choice: returns index
    pub fn weighted(&mut self, w: &[u32]) -> usize {
        let total: u32 = w.iter().sum();
        let mut r = self.below(total as usize) as u32;
        for (i, x) in w.iter().enumerate() {
            if r < *x {
                return i;
            }
            r -= *x;
        }
        w.len() - 1
    }
}
