//! The systematic part of C14: every nesting of two operators of the expression grammar, in both
//! groupings, printed and re-parsed; the three instances (original, re-printed, re-printed with
//! mangling) are then run in lock-step over numeric data for which groupings differ. The data
//! values of each world are drawn from the seed; the list of templates is fixed.

use crate::rng::Rng;
use serde_json::{json, Value};

const BIN: &[&str] = &["*", "/", "%", "+", "-", "<<", ">>", ">>>", "<", "<=", ">", ">=", "==", "!=", "===", "!==", "&", "^", "|", "&&", "||", "??"];
const UN: &[&str] = &["!", "-", "+", "~", "typeof ", "void "];
const POOL: &[&str] = &["-4", "-1", "0", "0.5", "1", "2", "3", "7", "10", "4294967297", "null", "\"\"", "\"5\"", "true"];

fn exprs() -> Vec<String> {
    let mut v = vec![];
    for o1 in BIN {
        for o2 in BIN {
            v.push(format!("(a {} b) {} c", o1, o2));
            v.push(format!("a {} (b {} c)", o1, o2));
        }
    }
    for u in UN {
        for o in BIN {
            v.push(format!("{}(a {} b)", u, o));
            v.push(format!("({}a) {} b", u, o));
            v.push(format!("a {} {}b", o, u));
            v.push(format!("a {} ({}b)", o, u));
        }
        for u2 in UN {
            v.push(format!("{}({}a)", u, u2));
            v.push(format!("{}{}a", u, if u2.len() == 1 && (*u == "-" || *u == "+") && u == u2 { format!(" {}", u2) } else { u2.to_string() }));
        }
        v.push(format!("{}(a ? b : c)", u));
        v.push(format!("({}a) ? b : c", u));
        v.push(format!("{}a ? b : c", u));
        v.push(format!("{}[a, b][0]", u));
        v.push(format!("({}a).p", u));
        v.push(format!("{}({{p: a}}).p", u));
    }
    for o in BIN {
        v.push(format!("(a {} b) ? c : d", o));
        v.push(format!("a {} (b ? c : d)", o));
        v.push(format!("(a ? b : c) {} d", o));
        v.push(format!("a ? b {} c : d", o));
        v.push(format!("a ? b : c {} d", o));
        v.push(format!("a ? (b {} c) : d", o));
        v.push(format!("[a {} b, c][0]", o));
        v.push(format!("({{p: a {} b}}).p", o));
        v.push(format!("(a {} b)[0]", o));
        v.push(format!("m.f(a {} b, c)", o));
        v.push(format!("m.f(a) {} b", o));
        v.push(format!("[a, b][0] {} c", o));
        v.push(format!("({{p: a}}).p {} c", o));
        v.push(format!("a {} b {} c", o, o));
    }
    v.extend(
        [
            "(a ? b : c) ? d : e",
            "a ? (b ? c : d) : e",
            "a ? b : (c ? d : e)",
            "a ? b : c ? d : e",
            "a ? b ? c : d : e",
            "(a ? b : c)[0]",
            "(a ? [b] : [c])[0]",
            "({p: a ? b : c}).p",
            "[a ? b : c, d][0]",
            "m.f(a ? b : c)",
            "(a, b)",
            "a + 1e3",
            "a + 0x10",
            "a + .5",
            "a + 5.",
            "a + 1.50",
            "a + 1e-7",
            "a + 123456789012345678901234567890",
            "a + 0.1 + 0.2",
            "a + 0xFFFFFFFFFFFFFFFFFF",
            "a + 0x7fffffffffffffff + 0X10",
            "a + 07777777777777777777777777",
            "a + 017 + 0o1",
            "a + 0xg",
            "a + 0x1z",
            "a + 0b1",
            "1 .p",
            "(1).p",
            "1.5.p",
            "(1.5).p",
            "(0.25).toFixed",
            "(2.0).p",
            "(1.5)[a]",
            "(1.5).p.q + a",
            "(-1.5).p",
            "(1e-7).p",
            "(.5).constructor.name",
            "a + 'it''s'",
            "a + \"q'\"",
            "a + 'x\\ny'",
            "a + '\\u00e9'",
            "'a' + 'b'",
            "'' + a",
            "a + ''",
            "({a, b}).b",
            "({'p q': a})['p q']",
            "({p: a, ...{p: b}}).p",
            "({...{p: b}, p: a}).p",
            "[a, , b].length",
            "[, a][1]",
            "[...[a, b], c][2]",
            "a.b.c",
            "a[b][c]",
            "a[b.c]",
            "a['p']",
            "a[0]",
            "m.f(a)(b)",
            "m.f(m.f(a))",
            "m.o.g(a)",
            "a instanceof b",
        ]
        .iter()
        .map(|s| s.to_string()),
    );
    v
}

const WRAP: &[&str] = &["<text>{{ @E@ }}</text>", "<view title=\"{{ @E@ }}\" data-x=\"p{{ @E@ }}q\"/>", "<block wx:if=\"{{ @E@ }}\">T</block><block wx:else>F</block>"];

/// tag-level forms: loop variable declarations, chains, templates, slots, attribute families
const TAGS: &[&str] = &[
    "<view wx:for=\"{{ list }}\">{{ index }}:{{ item.v }}</view>",
    "<view wx:for=\"{{ list }}\" wx:for-item=\"it\">{{ index }}:{{ it.v }}:{{ item }}</view>",
    "<view wx:for=\"{{ list }}\" wx:for-index=\"ix\">{{ ix }}:{{ item.v }}:{{ index }}</view>",
    "<view wx:for=\"{{ list }}\" wx:for-item=\"index\" wx:for-index=\"item\">{{ item }}:{{ index.v }}</view>",
    "<view wx:for=\"{{ list }}\" wx:for-item=\"index\">{{ index.v }}</view>",
    "<view wx:for=\"{{ list }}\" wx:for-index=\"item\">{{ item }}</view>",
    "<view wx:for=\"{{ list }}\" wx:for-item=\"a\" wx:for-index=\"b\" wx:key=\"k\">{{ b }}:{{ a.v }}</view>{{ a }}{{ b }}",
    "<block wx:for=\"{{ list }}\" wx:key=\"k\"><view wx:for=\"{{ l2 }}\">{{ index }}:{{ item }}</view>{{ index }}:{{ item.v }}</block>",
    "<block wx:for=\"{{ list }}\" wx:for-item=\"o\" wx:for-index=\"oi\"><view wx:for=\"{{ l2 }}\" wx:for-item=\"o\">{{ oi }}:{{ o }}:{{ index }}</view>{{ o.v }}</block>",
    "<view wx:for=\"{{ l2 }}\" wx:key=\"*this\">{{ item }}</view>",
    "<view wx:for=\"{{ obj }}\">{{ index }}={{ item }}</view>",
    "<view wx:for=\"{{ c }}\">{{ index }}</view>",
    "<view wx:for=\"{{ 'xyz' }}\">{{ item }}</view>",
    "<view wx:if=\"{{ a }}\">A</view><view wx:elif=\"{{ b }}\">B</view><view wx:else>C</view>",
    "<block wx:if=\"{{ a }}\">A</block><block wx:elif=\"{{ b }}\">B</block><block wx:elif=\"{{ c }}\">C</block>",
    "<view wx:if=\"{{ a }}\" wx:for=\"{{ l2 }}\">{{ item }}</view>",
    "<view wx:for=\"{{ l2 }}\" wx:if=\"{{ item }}\">{{ item }}</view><view wx:else>none</view>",
    "<template name=\"t\"><text>{{ x }}:{{ y }}</text></template><template is=\"t\" data=\"{{ x: a, y: b }}\"/>",
    "<template name=\"t\"><text>{{ x }}:{{ k }}</text></template><template is=\"t\" data=\"{{ ...obj }}\"/>",
    "<template name=\"t\"><text>{{ a }}:{{ b }}</text></template><template is=\"t\" data=\"{{ a, b }}\"/>",
    "<template name=\"t\"><text>T</text></template><template is=\"t\"/>",
    "<template name=\"t1\">1</template><template name=\"t2\">2</template><template is=\"{{ a ? 't1' : 't2' }}\"/>",
    "<template name=\"t1\">1{{ x }}</template><template name=\"t2\">2</template><template is=\"t{{ a ? 1 : 2 }}\" data=\"{{ x: b }}\"/>",
    "<template name=\"b\">B</template><template name=\"a\">A<template is=\"b\"/></template><template is=\"a\"/>",
    "<view data-x=\"{{ a }}\" data-y-z=\"{{ b }}\" data:dY=\"{{ c }}\" data:q=\"s\"/>",
    "<view mark:m=\"{{ a }}\" mark:nO=\"{{ b }}\" mark:s=\"t\"/>",
    "<view id=\"{{ a }}\" class=\"x {{ b }}\" style=\"color: {{ c }}\" hidden=\"{{ d }}\" hidden/>",
    "<view bind:tap=\"h1\" catch:tap=\"h2\" mut-bind:tap=\"h1\" capture-bind:tap=\"h2\" capture-catch:tap=\"h1\" capture-mut-bind:tap=\"h2\"/>",
    "<view catch:tap=\"{{ a ? 'h1' : 'h2' }}\" bind:tap=\"h2\" bindlong=\"h1\" catchlong=\"h2\"/>",
    "<input model:value=\"{{ a }}\" value=\"x\"/><input model:value=\"{{ obj.x }}\"/>",
    "<view title=\"a&quot;b'c&amp;d&lt;e\" alt='x\"y'>&lt;&amp;&gt;&quot;&#39;&nbsp;{{ a }}</view>",
    "<view title=\"{{ 'q\\'' + a }}\">{{ \"d'\" + b }}</view>",
    "<view>  {{ a }}  </view><view> </view><view>\n  x\n  {{ b }}\n</view>",
    "<text>a<!-- c -->b{{ a }}<!---->{{ b }}</text>",
    "<view a b=\"\" c=\"{{ '' }}\" d=\"{{ a }}\" e=\" \"/>",
    "<view extra-attr:e=\"x\" title=\"{{ a }}\"/>",
    "<view title='say \"hi\" {{ a }}' alt=\"it's {{ b }}\" data-q='\"' data-r=\"'\"/>",
    "<view title=\"&amp;lt; &amp;amp; &lt;b&gt; &#38;quot;\">&amp;lt;{{ a }}&amp;amp;</view>",
    "<view title=\"{{ 'a\"b' + a }}\" alt='{{ \"c\\'d\" + b }}'>{{ '<' + a + '>' + \"&amp;\" }}</view>",
    "<text>{ {{ a }} } {{ '{{' }} {{ '}}' + b }} }} {</text>",
    "<text>&#123;&#123;&#123; b }}</text><text>&#123;&#123;{{ a }}</text><text>x&#123;&#123;&#123;&#123;{{ b }}</text><text>&#123;{{ c }}&#123;&#123;&#123;</text>",
    "<view title=\"&#123;&#123;{{ a }}\" data-x=\"&#123;&#123;&#123;\" mark:m=\"q&#123;&#123;{{ b }}&#123;\"/>",
    "<text>{{ '{{{' + a }}{{ '{{' }}{{ b }}</text>",
    "<text>&#32;</text><view> &#10; </view><text>&#x20;&#9;</text><view>a&#32;b</view>",
    "<view wx:if=\"{{ a }}\">A</view>&#32;<view wx:else>B</view>",
    "<text>{{ ' ' }}</text><text>{{ \" \" + '' }}</text><view>{{ '\\n' }}</view>",
    "<view> {{ }} </view><text>x</text>",
    "<include src=\"a.wxml.wxml\"/><import src=\"lib.wxml.wxml\"/><include src=\"./b.wxml\"/><import src=\"/c\"/><text>{{ a }}</text>",
    "<template name=\"t\"><text>{{ a }}:{{ x }}</text></template><template is=\"t\" data=\"{{ (obj) }}\"/><template is=\"t\" data=\"{{ ((obj)) }}\"/>",
    "<template name=\"t\"><text>{{ a }}:{{ x }}</text></template><template is=\"t\" data=\"{{ a }}\"/><template is=\"t\" data=\"{{ {a} }}\"/><template is=\"t\" data=\"{{ a: b }}\"/>",
    "<view title=\"line1\nline2\t{{ a }}\">x\ty</view>",
    "<text>é{{ 'ü' + a }}漢字{{ b }}😀{{ '😀' }}</text><view data-é=\"{{ a }}\" title=\"ñ\"/>",
    "<text>{{ _$0 }}:{{ _$1 + a }}</text><view wx:for=\"{{ l2 }}\">{{ _$0 }}{{ item }}</view>",
    "<view data:aB1C=\"{{ a }}\" data-x-1-y=\"{{ b }}\" mark:URLValue=\"{{ c }}\" mark:a1-b2=\"{{ d }}\" data-a--b=\"1\"/>",
    "<input model:my-value=\"{{ a }}\" model:x1-y=\"{{ b }}\" change:my-prop=\"{{ w.f }}\"/><wxs module=\"w\">exports.f = function(){}</wxs>",
    "<view bind:my-event=\"h1\" catch:Tap=\"h2\" bindTouch-start=\"h1\" capture-bind:a:b=\"h2\"/>",
    "<wxs module=\"w\">exports.f = function(x){ return x < 1 ? '<a' : '{{' + x }</wxs><text>{{ w.f(a) }}</text>",
    "<view wx:for=\"{{ list }}\" wx:key=\"k\" bind:tap=\"h1\" data-i=\"{{ index }}\" mark:k=\"{{ item.k }}\" class=\"c{{ index }}\">{{ item.v }}</view>",
    "<block wx:for=\"{{ list }}\"><block wx:if=\"{{ item.v }}\"><text>{{ item.v }}</text></block><block wx:else><text>none{{ index }}</text></block></block>",
    // slot elements: name, values, common attributes, and look-alikes with a trailing dash
    "<slot name=\"{{ a }}\" my-value=\"{{ b }}\" v2=\"x\" id=\"{{ c }}\"/><slot/>",
    "<slot name-=\"x\" sv=\"{{ a }}\"/><slot id-=\"{{ b }}\" slot-=\"y\"/><view><slot name-></view>",
    // a data field that is called like a mangled name, next to a declared scope name
    "<view slot:x>{{ _$0 }}-{{ x }}</view><text>{{ _$0 }}</text>",
    // text runs separated only by a node that is hoisted out of the content tree or dropped by
    // error recovery: they stay separate text nodes
    "x<wxs module=\"w\">exports.f = function(){ return 1 }</wxs>{{ a }}<template name=\"q\">Q</template>y{{ b }}",
    "<view>p{{ a }}<template name=\"q\">Q</template>{{ b }}<import src=\"/c\"/>z</view>",
    "hello</b>{{ a }}<view>x</i>{{ b }}</view>",
    "<template name=\"t\">{{ x }}:{{ a }}</template><template is=\"t\" data=x/><template is=t data=\"{{ a }}\"/><view title=a data-x=b{{ c }}>{{ d }}</view>",
    // (... and must not join into a binding)
    "a{<wxs module=\"w\">exports.f = 1</wxs>{ b }}c<view>p{<template name=\"q\">Q</template>{{ a }}</view>",
    "<text>{{ a }}{<import src=\"/c\"/>{{ b }}</text>{</b>{ c }}",
    "x<import/>{{ a }}<wxs>1</wxs>y<template name=\"q\">1</template>{{ b }}<template name=\"q\">2</template>{{ c }}",
];

fn tag_variants() -> u64 {
    4
}

pub fn count() -> u64 {
    (exprs().len() * WRAP.len()) as u64 + TAGS.len() as u64 * tag_variants()
}

fn tag_world(seed: u64, i: u64, t: usize) -> Value {
    let mut r = Rng::fork(seed, &format!("c14grid.tag.{}", i));
    let val = |r: &mut Rng| -> Value { serde_json::from_str(*r.pick(POOL)).unwrap() };
    let rec = |r: &mut Rng, k: u64| -> Value { json!({"k": k, "v": serde_json::from_str::<Value>(*r.pick(POOL)).unwrap()}) };
    let mut data = json!({"list": [rec(&mut r, 1), rec(&mut r, 2)], "l2": [val(&mut r), val(&mut r)], "obj": {"x": val(&mut r), "k": val(&mut r)}});
    for f in ["a", "b", "c", "d", "e"] {
        data[f] = val(&mut r);
    }
    data["_$0"] = json!("D0");
    let mut schedule = vec![];
    let mut k = 10;
    for _ in 0..6 {
        let n = r.range(1, 3);
        for _ in 0..n {
            match r.below(8) {
                0 => {
                    k += 1;
                    schedule.push(json!(["splice", ["list"], r.below(3), r.below(2), [rec(&mut r, k)]]));
                }
                1 => schedule.push(json!(["splice", ["l2"], r.below(3), r.below(2), [val(&mut r)]])),
                2 => schedule.push(json!(["set", ["list", {"i": r.below(3)}, "v"], val(&mut r)])),
                3 => schedule.push(json!(["set", ["obj", *r.pick(&["x", "k"])], val(&mut r)])),
                4 => schedule.push(json!(["reorder", [*r.pick(&["list", "l2"])], "reverse"])),
                _ => {
                    let f = *r.pick(&["a", "b", "c", "d", "e"]);
                    schedule.push(json!(["set", [f], val(&mut r)]));
                }
            }
        }
        schedule.push(json!(["flush"]));
    }
    json!({
        "engine": "lockstep",
        "grid": {"expression": TAGS[t], "wrapper": "tag-level form"},
        "components": [{"is": "root", "methods": ["h1", "h2"], "path": "index", "root": true, "using": {}}],
        "config": {"backend": "composed"},
        "data": data,
        "schedule": schedule,
        "scripts": [],
        "sources": [["index", TAGS[t]]],
        "indexed_lists": [],
        "script_values": {},
        "unreachable_fields": [],
        "root_path": "index",
        "tags": ["grid"],
    })
}

pub fn world(seed: u64, i: u64) -> Value {
    let ex = exprs();
    let n_expr = (ex.len() * WRAP.len()) as u64;
    if i >= n_expr {
        let j = i - n_expr;
        return tag_world(seed, i, (j / tag_variants()) as usize);
    }
    let e = &ex[(i as usize) / WRAP.len()];
    let w = WRAP[(i as usize) % WRAP.len()];
    let mut r = Rng::fork(seed, &format!("c14grid.{}", i));
    let val = |r: &mut Rng| -> Value { serde_json::from_str(*r.pick(POOL)).unwrap() };
    let mut data = json!({});
    for f in ["a", "b", "c", "d", "e"] {
        data[f] = val(&mut r);
    }
    let mut schedule = vec![];
    for _ in 0..6 {
        let n = r.range(1, 3);
        for _ in 0..n {
            let f = *r.pick(&["a", "b", "c", "d", "e"]);
            schedule.push(json!(["set", [f], val(&mut r)]));
        }
        schedule.push(json!(["flush"]));
    }
    let src = format!("<wxs module=\"m\">exports.f = function(a, b){{ return 'f(' + a + ',' + b + ')' }}; exports.o = {{ g: function(a){{ return 'g' + a }} }}</wxs>{}", w.replace("@E@", e));
    json!({
        "engine": "lockstep",
        "grid": {"expression": e, "wrapper": w},
        "components": [{"is": "root", "methods": ["h1", "h2"], "path": "index", "root": true, "using": {}}],
        "config": {"backend": "composed"},
        "data": data,
        "schedule": schedule,
        "scripts": [],
        "sources": [["index", src]],
        "indexed_lists": [],
        "script_values": {},
        "unreachable_fields": [],
        "root_path": "index",
        "tags": ["grid"],
    })
}
