//! The systematic part of C14: every nesting of two operators of the expression grammar, in both
//! groupings, printed and re-parsed; the three instances (original, re-printed, re-printed with
//! mangling) are then run in lock-step over numeric data for which groupings differ. The data
//! values of each world are drawn from the seed; the list of templates is fixed.

use crate::rng::Rng;
use serde_json::{json, Value};

const BIN: &[&str] = &["*", "/", "%", "+", "-", "<<", ">>", ">>>", "<", "<=", ">", ">=", "==", "!=", "===", "!==", "&", "^", "|", "&&", "||", "??"];
const UN: &[&str] = &["!", "-", "+", "~", "typeof ", "void "];
const POOL: &[&str] = &["-4", "-1", "0", "0.5", "1", "2", "3", "7", "10", "4294967297", "null", "\"\"", "\"5\"", "true"];

fn exprs() -> Vec<String> {
    let mut v = vec![];
    for o1 in BIN {
        for o2 in BIN {
            v.push(format!("(a {} b) {} c", o1, o2));
            v.push(format!("a {} (b {} c)", o1, o2));
        }
    }
    for u in UN {
        for o in BIN {
            v.push(format!("{}(a {} b)", u, o));
            v.push(format!("({}a) {} b", u, o));
            v.push(format!("a {} {}b", o, u));
            v.push(format!("a {} ({}b)", o, u));
        }
        for u2 in UN {
            v.push(format!("{}({}a)", u, u2));
            v.push(format!("{}{}a", u, if u2.len() == 1 && (*u == "-" || *u == "+") && u == u2 { format!(" {}", u2) } else { u2.to_string() }));
        }
        v.push(format!("{}(a ? b : c)", u));
        v.push(format!("({}a) ? b : c", u));
        v.push(format!("{}a ? b : c", u));
        v.push(format!("{}[a, b][0]", u));
        v.push(format!("({}a).p", u));
        v.push(format!("{}({{p: a}}).p", u));
    }
    for o in BIN {
        v.push(format!("(a {} b) ? c : d", o));
        v.push(format!("a {} (b ? c : d)", o));
        v.push(format!("(a ? b : c) {} d", o));
        v.push(format!("a ? b {} c : d", o));
        v.push(format!("a ? b : c {} d", o));
        v.push(format!("a ? (b {} c) : d", o));
        v.push(format!("[a {} b, c][0]", o));
        v.push(format!("({{p: a {} b}}).p", o));
        v.push(format!("(a {} b)[0]", o));
        v.push(format!("m.f(a {} b, c)", o));
        v.push(format!("m.f(a) {} b", o));
        v.push(format!("[a, b][0] {} c", o));
        v.push(format!("({{p: a}}).p {} c", o));
        v.push(format!("a {} b {} c", o, o));
    }
    v.extend(
        [
            "(a ? b : c) ? d : e",
            "a ? (b ? c : d) : e",
            "a ? b : (c ? d : e)",
            "a ? b : c ? d : e",
            "a ? b ? c : d : e",
            "(a ? b : c)[0]",
            "(a ? [b] : [c])[0]",
            "({p: a ? b : c}).p",
            "[a ? b : c, d][0]",
            "m.f(a ? b : c)",
            "(a, b)",
            "a + 1e3",
            "a + 0x10",
            "a + .5",
            "a + 5.",
            "a + 1.50",
            "a + 1e-7",
            "a + 123456789012345678901234567890",
            "a + 0.1 + 0.2",
            "1 .p",
            "(1).p",
            "1.5.p",
            "a + 'it''s'",
            "a + \"q'\"",
            "a + 'x\\ny'",
            "a + '\\u00e9'",
            "'a' + 'b'",
            "'' + a",
            "a + ''",
            "({a, b}).b",
            "({'p q': a})['p q']",
            "({p: a, ...{p: b}}).p",
            "({...{p: b}, p: a}).p",
            "[a, , b].length",
            "[, a][1]",
            "[...[a, b], c][2]",
            "a.b.c",
            "a[b][c]",
            "a[b.c]",
            "a['p']",
            "a[0]",
            "m.f(a)(b)",
            "m.f(m.f(a))",
            "m.o.g(a)",
            "a instanceof b",
        ]
        .iter()
        .map(|s| s.to_string()),
    );
    v
}

const WRAP: &[&str] = &["<text>{{ @E@ }}</text>", "<view title=\"{{ @E@ }}\" data-x=\"p{{ @E@ }}q\"/>", "<block wx:if=\"{{ @E@ }}\">T</block><block wx:else>F</block>"];

pub fn count() -> u64 {
    (exprs().len() * WRAP.len()) as u64
}

pub fn world(seed: u64, i: u64) -> Value {
    let ex = exprs();
    let e = &ex[(i as usize) / WRAP.len()];
    let w = WRAP[(i as usize) % WRAP.len()];
    let mut r = Rng::fork(seed, &format!("c14grid.{}", i));
    let val = |r: &mut Rng| -> Value { serde_json::from_str(*r.pick(POOL)).unwrap() };
    let mut data = json!({});
    for f in ["a", "b", "c", "d", "e"] {
        data[f] = val(&mut r);
    }
    let mut schedule = vec![];
    for _ in 0..6 {
        let n = r.range(1, 3);
        for _ in 0..n {
            let f = *r.pick(&["a", "b", "c", "d", "e"]);
            schedule.push(json!(["set", [f], val(&mut r)]));
        }
        schedule.push(json!(["flush"]));
    }
    let src = format!("<wxs module=\"m\">exports.f = function(a, b){{ return 'f(' + a + ',' + b + ')' }}; exports.o = {{ g: function(a){{ return 'g' + a }} }}</wxs>{}", w.replace("@E@", e));
    json!({
        "engine": "lockstep",
        "grid": {"expression": e, "wrapper": w},
        "components": [{"is": "root", "methods": ["h1", "h2"], "path": "index", "root": true, "using": {}}],
        "config": {"backend": "composed"},
        "data": data,
        "schedule": schedule,
        "scripts": [],
        "sources": [["index", src]],
        "indexed_lists": [],
        "script_values": {},
        "unreachable_fields": [],
        "root_path": "index",
        "tags": ["grid"],
    })
}
