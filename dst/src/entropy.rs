//! Seam for OS entropy. std resolves `getrandom` dynamically so that it can be interposed; this
//! definition (exported with -rdynamic) makes `RandomState` keys a function of the simulated
//! per-"process" entropy stream. One simulated process = one fresh thread.

use std::cell::Cell;
use std::sync::atomic::{AtomicU64, Ordering};

thread_local! {
    static STREAM: Cell<u64> = const { Cell::new(0) };
    static CALLS: Cell<u64> = const { Cell::new(0) };
}
pub static TOTAL_CALLS: AtomicU64 = AtomicU64::new(0);
pub static DEBUG: std::sync::atomic::AtomicBool = std::sync::atomic::AtomicBool::new(false);

#[no_mangle]
pub unsafe extern "C" fn getrandom(buf: *mut u8, len: usize, _flags: u32) -> isize {
    TOTAL_CALLS.fetch_add(1, Ordering::Relaxed);
    if DEBUG.load(Ordering::Relaxed) {
        eprintln!("getrandom len={} flags={} thread={:?} stream={:x}", len, _flags, std::thread::current().id(), STREAM.with(|s| s.get()));
    }
    if len == 0 || buf.is_null() {
        // std probes the availability of the call once per OS process with an empty request: that
        // must not move the stream of whichever simulated process happens to come first
        return 0;
    }
    let mut x = STREAM.with(|s| {
        let v = s.get();
        s.set(v.wrapping_add(0x9E37_79B9_7F4A_7C15));
        v
    }) ^ 0xD1B5_4A32_D192_ED03;
    CALLS.with(|c| c.set(c.get() + 1));
    let mut i = 0;
    while i < len {
        let w = crate::rng::splitmix(&mut x);
        let bytes = w.to_le_bytes();
        let mut j = 0;
        while j < 8 && i < len {
            *buf.add(i) = bytes[j];
            i += 1;
            j += 1;
        }
    }
    len as isize
}

/// Called first thing by a thread that plays a simulated process.
pub fn set_stream(stream: u64) {
    STREAM.with(|s| s.set(stream));
    CALLS.with(|c| c.set(0));
}

pub fn calls() -> u64 {
    CALLS.with(|c| c.get())
}
