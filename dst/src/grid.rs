//! The systematic part of C06/C07 ("exhaustively over all subsets of changed leaf paths for small
//! templates"): every expression form of a catalogue in every binding position of a catalogue, and
//! for each such small template every non-empty subset of the expression's dependency leaves as
//! the changed set of one update, under several marking styles (exact tree, coarsened tree, `true`,
//! the runtime's own tree for a batch, and one change per flush - the binding-map fast path).
//! The order in which the subsets are applied is drawn from the seed; everything else is fixed.
//! Worlds are explicit (the same JSON shape as a replay file) and run by the runtime engine.

use crate::rng::Rng;
use serde_json::{json, Map, Value};

/// (id, data path, value A, value B) - a leaf toggles between its two values
const LEAVES: &[(&str, &str, &str, &str)] = &[
    ("a", r#"["a"]"#, r#""a0""#, r#""""#),
    ("b", r#"["b"]"#, r#""b0""#, r#""b1""#),
    ("c", r#"["c"]"#, "1", "2"),
    ("d", r#"["d"]"#, "3", "0"),
    ("flag", r#"["flag"]"#, "true", "false"),
    ("n", r#"["n"]"#, "0", "1"),
    ("s", r#"["s"]"#, r#""x""#, r#""k""#),
    ("obj.x", r#"["obj","x"]"#, r#""x0""#, r#""x1""#),
    ("obj.k", r#"["obj","k"]"#, r#""k0""#, r#""k1""#),
    ("obj.y.z", r#"["obj","y","z"]"#, r#""z0""#, "null"),
    ("o2.p", r#"["o2","p"]"#, r#""p0""#, "7"),
    ("list.0.v", r#"["list",0,"v"]"#, r#""v0""#, r#""v1""#),
    ("list.1.v", r#"["list",1,"v"]"#, r#""w0""#, "false"),
    ("list.0.sub.0.v", r#"["list",0,"sub",0,"v"]"#, r#""s0""#, r#""s1""#),
    ("l2.0", r#"["l2",0]"#, r#""e0""#, r#""e1""#),
    ("l2.1", r#"["l2",1]"#, r#""g0""#, "5"),
    ("om", r#"["om"]"#, r#"{"p":{"k":1,"v":"m0"},"q":{"k":2,"v":"m1"}}"#, r#"{"q":{"k":2,"v":"m1"},"r":{"k":1,"v":"m0"}}"#),
    // (a field that is absent at first; integer-like, so it sorts before the other fields)
    ("om.1", r#"["om","1"]"#, r#"{"k":3,"v":"m8"}"#, r#"{"k":3,"v":"m9"}"#),
    ("list", r#"["list"]"#, r#"[{"k":1,"v":"v0","w":"u0","sub":[{"k":11,"v":"s0"}]},{"k":2,"v":"w0","w":"u1","sub":[{"k":21,"v":"t0"}]}]"#, r#"[{"k":2,"v":"w0","w":"u1","sub":[{"k":21,"v":"t0"}]},{"k":3,"v":"n0","w":"u2","sub":[]},{"k":1,"v":"v0","w":"u0","sub":[{"k":11,"v":"s0"}]}]"#),
    ("ll.0.0", r#"["ll",0,0]"#, r#""h0""#, r#""h9""#),
    ("ll.0.1", r#"["ll",0,1]"#, r#""h1""#, "8"),
    ("ll.1.0", r#"["ll",1,0]"#, r#""h2""#, r#""h7""#),
];

const D0: &str = r#"{"a":"a0","b":"b0","c":1,"d":3,"flag":true,"n":0,"s":"x","obj":{"x":"x0","k":"k0","y":{"z":"z0"}},"o2":{"p":"p0","q":"q0"},"list":[{"k":1,"v":"v0","w":"u0","sub":[{"k":11,"v":"s0"}]},{"k":2,"v":"w0","w":"u1","sub":[{"k":21,"v":"t0"}]}],"l2":["e0","g0"],"ll":[["h0","h1"],["h2"]],"om":{"p":{"k":1,"v":"m0"},"q":{"k":2,"v":"m1"}}}"#;

/// (expression source, dependency leaves, kind: 's' scalar-valued / 'l' list-valued / 'o' object-valued)
const EXPRS: &[(&str, &[&str], char)] = &[
    ("a", &["a"], 's'),
    ("a + b", &["a", "b"], 's'),
    ("c * d - c", &["c", "d"], 's'),
    ("obj.x", &["obj.x"], 's'),
    ("obj.y.z", &["obj.y.z"], 's'),
    ("obj[s]", &["obj.x", "obj.k", "s"], 's'),
    ("obj['x'] + obj.y['z']", &["obj.x", "obj.y.z"], 's'),
    ("flag ? a : b", &["flag", "a", "b"], 's'),
    ("flag ? obj.x : o2.p", &["flag", "obj.x", "o2.p"], 's'),
    ("a || b", &["a", "b"], 's'),
    ("a && b", &["a", "b"], 's'),
    ("obj.y.z ?? b", &["obj.y.z", "b"], 's'),
    ("!a", &["a"], 's'),
    ("-d", &["d"], 's'),
    ("typeof obj.y.z", &["obj.y.z"], 's'),
    ("c === d", &["c", "d"], 's'),
    ("d < c", &["c", "d"], 's'),
    ("[a, b][n]", &["a", "b", "n"], 's'),
    ("[, a, b][n + 1]", &["a", "b", "n"], 's'),
    ("[a, ...l2][n]", &["a", "l2.0", "n"], 's'),
    ("[a, b].length + c", &["c"], 's'),
    ("({p: a, q: b}).p", &["a"], 's'),
    ("({p: a, q: b})[s === 'x' ? 'p' : 'q']", &["a", "b", "s"], 's'),
    ("({...obj}).x", &["obj.x"], 's'),
    ("({...obj, x: a}).x", &["a"], 's'),
    ("({a}).a", &["a"], 's'),
    ("m.f(a)", &["a"], 's'),
    ("m.f(obj.x) + m.f(b)", &["obj.x", "b"], 's'),
    ("m.j(obj)", &["obj.x", "obj.k", "obj.y.z"], 's'),
    ("m.j(obj.y)", &["obj.y.z"], 's'),
    ("m.j(list)", &["list.0.v", "list.1.v", "list.0.sub.0.v"], 's'),
    ("m.j([a, obj.y])", &["a", "obj.y.z"], 's'),
    ("list[n].v", &["list.0.v", "list.1.v", "n"], 's'),
    ("list[0].sub[0].v", &["list.0.sub.0.v"], 's'),
    ("l2[n]", &["l2.0", "l2.1", "n"], 's'),
    ("l2[1] + l2[0]", &["l2.0", "l2.1"], 's'),
    ("'abcdef'[n]", &["n"], 's'),
    ("(a + 'xyz')[n]", &["a", "n"], 's'),
    ("(flag ? l2 : 'wxyz')[n]", &["flag", "l2.0", "l2.1", "n"], 's'),
    ("(l2 || list)[n]", &["l2.0", "l2.1", "n"], 's'),
    ("m.f(s)[n]", &["s", "n"], 's'),
    ("obj[s === 'x' ? 'k' : 'x']", &["obj.x", "obj.k", "s"], 's'),
    ("list[n].sub.length + c", &["n", "c"], 's'),
    ("m.pickf(s)(a)", &["s", "a"], 's'),
    ("m.pickf(s)(obj)", &["s", "obj.x"], 's'),
    ("m.wrap(a, obj).q.x", &["a", "obj.x"], 's'),
    ("m.wrap(obj, a).p.y.z + m.wrap(b, c).p", &["obj.y.z", "b"], 's'),
    ("(flag ? m.wrap(a, obj) : m.wrap(b, o2)).q.k", &["flag", "obj.k"], 's'),
    ("m.pick(list, n).v", &["list.0.v", "list.1.v", "n"], 's'),
    ("m.pick(m.rev(l2), n)", &["l2.0", "l2.1", "n"], 's'),
    ("ll[n][0]", &["ll.0.0", "ll.1.0", "n"], 's'),
    ("ll[0][n]", &["ll.0.0", "ll.0.1", "n"], 's'),
    ("l2", &["l2.0", "l2.1"], 'l'),
    ("m.rev(l2)", &["l2.0", "l2.1"], 'l'),
    ("m.rev([a, b, ...l2])", &["a", "b", "l2.0"], 'l'),
    ("m.wrap(a, l2).q", &["a", "l2.0", "l2.1"], 'l'),
    ("ll[n]", &["ll.0.0", "ll.0.1", "ll.1.0", "n"], 'l'),
    ("om", &["om"], 'l'),
    ("om", &["om", "om.1"], 'l'),
    ("list", &["list"], 'l'),
    ("m.rev(list)", &["list"], 'l'),
    ("flag ? om : obj", &["om", "flag"], 'l'),
    ("m.wrap(a, obj)", &["a", "obj.x", "obj.y.z"], 'w'),
    ("m.wrap(m.f(a), obj)", &["a", "obj.x", "obj.k"], 'w'),
    ("flag ? m.wrap(a, obj) : m.wrap(b, obj.y)", &["flag", "a", "obj.x", "obj.y.z"], 'w'),
    ("flag ? l2 : [a, b]", &["flag", "l2.0", "l2.1", "a", "b"], 'l'),
    ("[a, b, ...l2]", &["a", "b", "l2.0"], 'l'),
    ("[obj.x, obj.y.z]", &["obj.x", "obj.y.z"], 'l'),
    ("obj", &["obj.x", "obj.k"], 'l'),
    ("obj", &["obj.x", "obj.y.z"], 'o'),
    ("obj.y", &["obj.y.z"], 'o'),
    ("{...obj, k: a}", &["obj.x", "a"], 'o'),
    ("flag ? obj : o2", &["flag", "obj.x", "o2.p"], 'o'),
    ("list[n]", &["list.0.v", "list.1.v", "n"], 'o'),
];

/// (name, template with @E@, accepted kind, extra: 'p' plain child / 'y' dyn child / 'n' dynn child / 'd' root dynamic slots / '-',
/// is @E@ in a position the binding map cannot reach?)
const POSITIONS: &[(&str, &str, char, char, bool)] = &[
    ("text", "<view>{{ @E@ }}</view>", 's', '-', false),
    ("text-mixed", "<view>t-{{ @E@ }}-{{ c }}</view>", 's', '-', false),
    ("attr", "<view title=\"{{ @E@ }}\"/>", 's', '-', false),
    ("attr-plus-plain-uses", "<view id=\"{{ s }}\" class=\"{{ a }}\" data-n=\"{{ n }}\" title=\"{{ @E@ }}\">{{ flag }}:{{ obj.x }}</view>", 's', '-', false),
    ("attr-mixed", "<view title=\"p {{ @E@ }} q\"/>", 's', '-', false),
    ("class", "<view class=\"k {{ @E@ }}\"/>", 's', '-', false),
    ("style", "<view style=\"color: {{ @E@ }}\"/>", 's', '-', false),
    ("id", "<view id=\"{{ @E@ }}\"/>", 's', '-', false),
    ("dataset", "<view data-x=\"{{ @E@ }}\" data:dY=\"{{ @E@ }}\"/>", 's', '-', false),
    ("mark", "<view mark:m=\"{{ @E@ }}\"/>", 's', '-', false),
    ("hidden", "<view hidden=\"{{ @E@ }}\">h</view>", 's', '-', false),
    ("in-if", "<block wx:if=\"{{ c }}\"><text>{{ @E@ }}</text></block>", 's', '-', true),
    ("if-cond", "<block wx:if=\"{{ @E@ }}\">T</block><block wx:else>F</block>", 's', '-', true),
    ("elif-cond", "<view wx:if=\"{{ !c }}\">0</view><view wx:elif=\"{{ @E@ }}\">1</view><view wx:else>2</view>", 's', '-', true),
    ("in-for", "<block wx:for=\"{{ list }}\" wx:key=\"k\"><text>{{ @E@ }}:{{ item.v }}:{{ index }}</text></block>", 's', '-', true),
    ("in-for-nokey", "<view wx:for=\"{{ l2 }}\">{{ item }}={{ @E@ }}</view>", 's', '-', true),
    ("in-for-in-if", "<block wx:for=\"{{ list }}\" wx:key=\"k\"><block wx:if=\"{{ item.w }}\">{{ @E@ }}</block></block>", 's', '-', true),
    ("tmpl-data", "<template name=\"t\"><text>{{ q }}:{{ w }}</text></template><template is=\"t\" data=\"{{ q: @E@, w: c }}\"/>", 's', '-', true),
    ("tmpl-data-in-for", "<template name=\"t\"><text>{{ q }}:{{ w }}</text></template><block wx:for=\"{{ list }}\" wx:key=\"k\"><template is=\"t\" data=\"{{ q: @E@, w: item.v }}\"/></block>", 's', '-', true),
    ("tmpl-data-scope-only-in-for", "<text>{{ @E@ }}</text><template name=\"t\"><text>{{ q }}:{{ w }}</text></template><block wx:for=\"{{ list }}\" wx:key=\"k\"><template is=\"t\" data=\"{{ q: item.v, w: index }}\"/></block>", 's', '-', false),
    ("tmpl-nested", "<template name=\"t1\"><text>{{ q }}</text></template><template name=\"t2\"><template is=\"t1\" data=\"{{ q: r }}\"/></template><template is=\"t2\" data=\"{{ r: @E@ }}\"/>", 's', '-', true),
    ("tmpl-is", "<template name=\"t1\"><text>one {{ a }}</text></template><template name=\"t0\"><text>zero {{ b }}</text></template><template is=\"t{{ (@E@) ? 1 : 0 }}\" data=\"{{ a, b }}\"/>", 's', '-', true),
    ("comp-prop", "<plain p=\"{{ @E@ }}\"/>", 's', 'p', false),
    ("comp-prop-in-for", "<block wx:for=\"{{ l2 }}\"><plain p=\"{{ @E@ }}\" q=\"{{ item }}\"/></block>", 's', 'p', true),
    ("comp-slot-content", "<plain p=\"{{ c }}\"><text>{{ @E@ }}</text></plain>", 's', 'p', false),
    ("dyn-slot-text", "<dyn items=\"{{ list }}\" p=\"{{ c }}\">T:{{ @E@ }}<view>V:{{ @E@ }}</view></dyn>", 's', 'y', false),
    ("dyn-slot-content-with-values", "<dyn items=\"{{ list }}\" p=\"{{ c }}\"><view slot:sv slot:si=\"i\">{{ i }}:{{ sv.v }}:{{ @E@ }}<text wx:if=\"{{ sv.w }}\">{{ @E@ }}</text></view></dyn>", 's', 'y', true),
    ("dynn-named-slot-content", "<dynn p=\"{{ c }}\"><view slot=\"a\">A:{{ @E@ }}</view><view slot=\"{{ s === 'x' ? 'a' : 'b' }}\">S:{{ @E@ }}</view>D:{{ @E@ }}</dynn>", 's', 'n', false),
    ("slot-value", "<slot sv=\"{{ @E@ }}\"/>", 's', 'd', false),
    ("slot-value-in-tmpl", "<template name=\"t\"><slot sv=\"{{ q }}\"/></template><template is=\"t\" data=\"{{ q: @E@ }}\"/>", 's', 'd', true),
    ("slot-name", "<slot name=\"{{ @E@ }}\"/>", 's', 'd', true),
    // (a <slot> is updated as a whole: none of its attributes is reachable for the binding map)
    ("slot-elem-forwarded-slot-attr", "<multi p=\"{{ c }}\"><slot slot=\"{{ @E@ }}\"/><view slot=\"a\">A</view></multi>", 's', 'm', true),
    ("slot-elem-common-attrs", "<slot id=\"{{ @E@ }}\" data:x=\"{{ @E@ }}\" mark:m=\"{{ @E@ }}\"/>", 's', 'd', true),
    ("slot-elem-common-attrs-static-root", "<view><slot name=\"q\" id=\"{{ @E@ }}\" data:x=\"{{ @E@ }}\"/></view>", 's', '-', true),
    ("event-handler", "<view bind:tap=\"{{ @E@ }}\"/>", 's', '-', false),
    ("for-list", "<block wx:for=\"{{ @E@ }}\">[{{ index }}:{{ item }}]</block>", 'l', '-', true),
    ("for-list-key-this", "<view wx:for=\"{{ @E@ }}\" wx:key=\"*this\">{{ item }}</view>", 'l', '-', true),
    ("for-list-index-only", "<view wx:for=\"{{ @E@ }}\" data-i=\"{{ index }}\"><text>{{ index }}</text></view>", 'l', '-', true),
    ("for-list-keyed-k", "<view wx:for=\"{{ @E@ }}\" wx:key=\"k\" data-i=\"{{ index }}\">{{ item.v }}</view>", 'l', '-', true),
    ("for-list-item-member", "<view wx:for=\"{{ @E@ }}\"><text>{{ item.v }}</text><text>{{ index }}</text></view>", 'l', '-', true),
    ("for-list-item-member-keyed", "<view wx:for=\"{{ @E@ }}\" wx:key=\"k\"><text>{{ item.v }}</text><text>{{ index }}</text></view>", 'l', '-', true),
    ("for-list-in-if", "<block wx:if=\"{{ c }}\"><view wx:for=\"{{ @E@ }}\">{{ item }}/{{ c }}</view></block>", 'l', '-', true),
    ("for-of-for", "<block wx:for=\"{{ ll }}\" wx:for-item=\"row\" wx:for-index=\"ri\"><view wx:for=\"{{ row }}\">{{ ri }}/{{ index }}:{{ item }}:{{ @E@ }}</view></block>", 's', '-', true),
    ("tmpl-data-wrap", "<template name=\"t\"><text>{{ o.q.x }}:{{ o.q.y.z }}:{{ o.q.k }}:{{ o.q.z }}:{{ o.p }}</text></template><template is=\"t\" data=\"{{ o: @E@ }}\"/>", 'w', '-', true),
    ("tmpl-data-wrap-in-for", "<template name=\"t\"><text>{{ o.q.x }}:{{ o.q.y.z }}:{{ o.p }}:{{ i }}</text></template><block wx:for=\"{{ l2 }}\"><template is=\"t\" data=\"{{ o: @E@, i: item }}\"/></block>", 'w', '-', true),
    ("comp-prop-wrap", "<plain p=\"{{ (@E@).q }}\"/>", 'w', 'p', false),
    ("comp-prop-object", "<plain p=\"{{ @E@ }}\"/>", 'o', 'p', false),
    ("tmpl-data-spread", "<template name=\"t\"><text>{{ x }}:{{ y.z }}:{{ k }}:{{ v }}:{{ p }}:{{ z }}</text></template><template is=\"t\" data=\"{{ ...(@E@) }}\"/>", 'o', '-', true),
    ("tmpl-data-object", "<template name=\"t\"><text>{{ m.j(o) }}:{{ o.x }}</text></template><template is=\"t\" data=\"{{ o: @E@ }}\"/>", 'o', '-', true),
    ("text-json", "<text>{{ m.j(@E@) }}</text>", 'o', '-', false),
];

pub const MODES: &[&str] = &["exact", "coarse", "true", "batch", "single"];

const WXS: &str = "<wxs module=\"m\">exports.f = function(a){ return 'f(' + a + ')' }; exports.j = function(a){ return JSON.stringify(a) }; exports.rev = function(a){ return a && a.reverse ? a.slice().reverse() : a }; exports.wrap = function(a, b){ return {p: a, q: b} }; exports.pick = function(l, i){ return l[i] }; exports.pickf = function(n){ return n === 'x' ? exports.f : exports.j }</wxs>";

fn leaf(id: &str) -> (Value, Value, Value) {
    let l = LEAVES.iter().find(|l| l.0 == id).unwrap_or_else(|| panic!("unknown leaf {}", id));
    (serde_json::from_str(l.1).unwrap(), serde_json::from_str(l.2).unwrap(), serde_json::from_str(l.3).unwrap())
}

fn mark(tree: &mut Value, path: &[Value]) {
    // insert `true` at path; a `true` above wins
    if path.is_empty() {
        *tree = json!(true);
        return;
    }
    if tree == &json!(true) {
        return;
    }
    if !tree.is_object() {
        *tree = Value::Object(Map::new());
    }
    let key = match &path[0] {
        Value::String(s) => s.clone(),
        v => v.to_string(),
    };
    let slot = tree.as_object_mut().unwrap().entry(key).or_insert(Value::Null);
    mark(slot, &path[1..]);
}

pub fn count() -> u64 {
    let mut n = 0;
    for p in POSITIONS {
        for e in EXPRS {
            if p.2 == e.2 {
                n += MODES.len() as u64;
            }
        }
    }
    n
}

/// The i-th world of the grid (explicit form). The order of the subsets is drawn from `seed`.
pub fn world(seed: u64, i: u64) -> Value {
    let mut k = i;
    for p in POSITIONS {
        for e in EXPRS {
            if p.2 != e.2 {
                continue;
            }
            for mode in MODES {
                if k == 0 {
                    return build(seed, i, p, e, mode);
                }
                k -= 1;
            }
        }
    }
    panic!("grid index out of range");
}

fn build(seed: u64, i: u64, p: &(&str, &str, char, char, bool), e: &(&str, &[&str], char), mode: &str) -> Value {
    let mut r = Rng::fork(seed, &format!("grid.{}", i));
    let src = format!("{}{}", WXS, p.1.replace("@E@", e.0));
    let leaves: Vec<(Value, Value, Value)> = e.1.iter().map(|id| leaf(id)).collect();
    let k = leaves.len();
    // every non-empty subset once, as the changed set of one update, in a seeded order
    let mut subsets: Vec<u32> = (1..(1u32 << k)).collect();
    r.shuffle(&mut subsets);
    if mode == "single" {
        subsets.retain(|s| s.count_ones() == 1);
        // toggle each leaf there and back
        let again = subsets.clone();
        subsets.extend(again);
    }
    let mut state = vec![false; k];
    let mut schedule: Vec<Value> = vec![];
    for s in subsets {
        let mut patches = vec![];
        let mut u = Value::Null;
        for (j, l) in leaves.iter().enumerate() {
            if s & (1 << j) == 0 {
                continue;
            }
            state[j] = !state[j];
            let v = if state[j] { l.2.clone() } else { l.1.clone() };
            let path = l.0.as_array().unwrap().clone();
            match mode {
                "exact" => mark(&mut u, &path),
                "coarse" => mark(&mut u, if path.len() == 1 { &path[..] } else { &path[..path.len() - 1] }),
                _ => {}
            }
            patches.push(json!([path, v]));
        }
        match mode {
            "exact" | "coarse" => schedule.push(json!(["raw", patches, u])),
            "true" => schedule.push(json!(["raw", patches, true])),
            _ => {
                for pv in &patches {
                    schedule.push(json!(["set", pv[0], pv[1]]));
                }
                schedule.push(json!(["flush"]));
            }
        }
    }
    let mut components = vec![];
    let mut sources = vec![json!(["index", src])];
    let mut using = Map::new();
    let child = match p.3 {
        'p' => Some("plain"),
        'y' => Some("dyn"),
        'n' => Some("dynn"),
        'm' => Some("multi"),
        _ => None,
    };
    if let Some(c) = child {
        components.push(crate::gen::catalogue_component(c));
        sources.push(json!([format!("comp/{}", c), crate::gen::catalogue_file(c).raw.unwrap_or_default()]));
        using.insert(c.into(), json!(c));
    }
    let mut root = json!({"is": "root", "methods": ["h1", "h2"], "path": "index", "root": true, "using": using});
    if p.3 == 'd' {
        root["options"] = json!({"dynamicSlots": true});
    }
    components.push(root);
    // C07's static clause: a field read where the binding map cannot reach must not be advertised
    let mut unreachable: Vec<String> = vec![];
    if p.4 {
        for l in &leaves {
            let f = l.0[0].as_str().unwrap_or("").to_string();
            if !unreachable.contains(&f) {
                unreachable.push(f);
            }
        }
        unreachable.sort();
    }
    let update_mode = if r.chance(0.25) { "virtualTree" } else { "" };
    let mut config = json!({"backend": if r.chance(0.5) { "composed" } else { "shadow" }});
    if !update_mode.is_empty() {
        config["updateMode"] = json!(update_mode);
    }
    json!({
        "engine": "runtime",
        "grid": {"position": p.0, "expression": e.0, "mode": mode, "leaves": e.1},
        "components": components,
        "config": config,
        "data": serde_json::from_str::<Value>(D0).unwrap(),
        "schedule": schedule,
        "scripts": [],
        "sources": sources,
        "indexed_lists": [],
        "script_values": {},
        "unreachable_fields": unreachable,
        "root_path": "index",
        "tags": ["grid", format!("grid_pos_{}", p.0), format!("grid_mode_{}", mode)],
    })
}

// ---------------------------------------------------------------------------------------------
// C11: every access-chain form (and every look-alike that is not assignable) as a model: binding in
// every scope position; data toggles and writes through the live listeners alternate.

/// (expression, dependency leaves, statically assignable? Some(true/false), None = decided at run time)
const MODEL_EXPRS: &[(&str, &[&str], Option<bool>, char)] = &[
    ("a", &["a"], Some(true), 'r'),
    ("obj.x", &["obj.x"], Some(true), 'r'),
    ("obj.y.z", &["obj.y.z"], Some(true), 'r'),
    ("obj['x']", &["obj.x"], Some(true), 'r'),
    ("obj[s]", &["obj.x", "obj.k", "s"], Some(true), 'r'),
    ("list[n].v", &["list.0.v", "list.1.v", "n"], Some(true), 'r'),
    ("list[0].sub[0].v", &["list.0.sub.0.v"], Some(true), 'r'),
    ("l2[n]", &["l2.0", "l2.1", "n"], Some(true), 'r'),
    ("flag ? a : b", &["flag", "a", "b"], Some(true), 'r'),
    ("flag ? obj.x : l2[n]", &["flag", "obj.x", "l2.0", "l2.1", "n"], Some(true), 'r'),
    ("flag ? a : m.k", &["flag", "a"], None, 'r'),
    ("flag ? [a, b][0] : b", &["flag", "a", "b"], None, 'r'),
    ("a + 1", &["a"], Some(false), 'r'),
    ("'lit'", &[], Some(false), 'r'),
    ("!a", &["a"], Some(false), 'r'),
    ("-d", &["d"], Some(false), 'r'),
    ("a || b", &["a", "b"], Some(false), 'r'),
    ("m.f(a)", &["a"], Some(false), 'r'),
    ("[a, b][0]", &["a", "b"], Some(false), 'r'),
    ("[a, b][n]", &["a", "b", "n"], Some(false), 'r'),
    ("({p: a}).p", &["a"], Some(false), 'r'),
    ("m.k", &[], Some(false), 'r'),
    ("m.rows[0].v", &[], Some(false), 'r'),
    ("(obj.x)", &["obj.x"], None, 'r'),
    ("(obj).x", &["obj.x"], None, 'r'),
    ("(obj.y).z", &["obj.y.z"], None, 'r'),
    ("obj['y'].z", &["obj.y.z"], Some(true), 'r'),
    ("obj.y['z']", &["obj.y.z"], Some(true), 'r'),
    ("obj[\"x\"]", &["obj.x"], Some(true), 'r'),
    ("list[0].v", &["list.0.v"], Some(true), 'r'),
    ("list[1]['v']", &["list.1.v"], Some(true), 'r'),
    ("list[n + 0].v", &["list.0.v", "list.1.v", "n"], None, 'r'),
    ("l2[l2.length - 1]", &["l2.0", "l2.1"], None, 'r'),
    ("l2[flag ? 0 : 1]", &["l2.0", "l2.1", "flag"], None, 'r'),
    ("list[list.length - 1].v", &["list.0.v", "list.1.v"], None, 'r'),
    ("(flag ? obj : o2).k", &["flag", "obj.k"], None, 'r'),
    ("(flag ? list[0] : list[1]).v", &["flag", "list.0.v", "list.1.v"], None, 'r'),
    ("(flag ? (a ? obj : o2) : o2).k", &["flag", "a", "obj.k"], None, 'r'),
    ("(flag ? obj : (a ? o2 : obj)).x", &["flag", "a", "obj.x"], None, 'r'),
    ("(flag ? (a ? list[0] : list[1]) : list[n]).v", &["flag", "a", "list.0.v", "list.1.v", "n"], None, 'r'),
    ("[obj][0].x", &["obj.x"], Some(false), 'r'),
    ("[a][0]", &["a"], Some(false), 'r'),
    ("({o: obj}).o.x", &["obj.x"], Some(false), 'r'),
    ("m.f(a).length", &["a"], Some(false), 'r'),
    ("m.rows[n].v", &["n"], Some(false), 'r'),
    ("obj[m.k]", &[], None, 'r'),
    ("typeof a", &["a"], Some(false), 'r'),
    ("a ?? b", &["a", "b"], Some(false), 'r'),
    ("a && obj.x", &["a", "obj.x"], Some(false), 'r'),
    ("item.v", &["list.0.v", "list.1.v"], Some(true), 'i'),
    ("(item).v", &["list.0.v", "list.1.v"], None, 'i'),
    ("item.sub[index].v", &["list.0.sub.0.v"], None, 'i'),
    ("list[index + 0].v", &["list.0.v", "list.1.v"], None, 'i'),
    ("item.sub[0].v", &["list.0.sub.0.v"], Some(true), 'i'),
    ("item['v']", &["list.0.v", "list.1.v"], Some(true), 'i'),
    ("flag ? item.v : a", &["flag", "list.0.v", "a"], Some(true), 'i'),
    ("flag ? item.v : index", &["flag", "list.0.v"], None, 'i'),
    ("index", &[], Some(false), 'i'),
    ("item.v + 1", &["list.0.v"], Some(false), 'i'),
    ("list[index].v", &["list.0.v", "list.1.v"], Some(true), 'i'),
    ("item", &["l2.0", "l2.1"], Some(true), 's'),
    ("index", &[], Some(false), 's'),
    ("l2[index]", &["l2.0", "l2.1"], Some(true), 's'),
    ("item + ''", &["l2.0"], Some(false), 's'),
    ("item", &["ll.0.0", "ll.0.1", "ll.1.0"], Some(true), 's'),
];

/// (name, template with @B@ = the whole binding attribute, scope kind of @E@: r root / i record item / s scalar item,
///  items assignable in this position?)
const MODEL_POSITIONS: &[(&str, &str, char, Option<bool>)] = &[
    ("root", "<input @B@/>", 'r', Some(true)),
    ("in-if", "<block wx:if=\"{{ c }}\"><input @B@/></block>", 'r', Some(true)),
    ("in-for-root-expr", "<block wx:for=\"{{ l2 }}\"><input @B@/></block>", 'r', Some(true)),
    ("child", "<mchild @C@/>", 'r', Some(true)),
    ("for-keyed", "<block wx:for=\"{{ list }}\" wx:key=\"k\"><input @B@/></block>", 'i', Some(true)),
    ("for-unkeyed", "<view wx:for=\"{{ list }}\"><input @B@/></view>", 'i', Some(true)),
    ("for-renamed", "<view wx:for=\"{{ list }}\" wx:for-item=\"item\" wx:for-index=\"index\" wx:key=\"k\"><block wx:if=\"{{ c }}\"><input @B@/></block></view>", 'i', Some(true)),
    ("for-in-for", "<block wx:for=\"{{ l2 }}\" wx:for-item=\"o\" wx:for-index=\"oi\"><block wx:for=\"{{ list }}\" wx:key=\"k\"><input @B@/></block></block>", 'i', Some(true)),
    ("for-keyed-outer-inner-sub", "<block wx:for=\"{{ list }}\" wx:key=\"k\" wx:for-item=\"o\" wx:for-index=\"oi\"><block wx:for=\"{{ o.sub }}\" wx:key=\"k\"><input @B@/></block></block>", 'i', Some(true)),
    ("for-unkeyed-outer-inner-sub", "<block wx:for=\"{{ list }}\" wx:for-item=\"o\"><view wx:for=\"{{ o.sub }}\"><input @B@/></view></block>", 'i', Some(true)),
    ("for-cond-list", "<block wx:for=\"{{ flag ? list : [] }}\" wx:key=\"k\"><input @B@/></block>", 'i', Some(true)),
    ("for-cond-member-list", "<block wx:for=\"{{ (flag ? list[0] : list[1]).sub }}\" wx:key=\"k\"><input @B@/></block>", 'i', Some(true)),
    ("for-nested-cond-member-list", "<block wx:for=\"{{ (flag ? (a ? list[0] : list[1]) : list[1]).sub }}\"><input @B@/></block>", 'i', Some(true)),
    ("for-scalars", "<block wx:for=\"{{ l2 }}\"><input @B@/></block>", 's', Some(true)),
    ("for-scalars-keyed", "<block wx:for=\"{{ l2 }}\" wx:key=\"*this\"><input @B@/></block>", 's', Some(true)),
    ("for-list-of-lists", "<block wx:for=\"{{ ll }}\" wx:for-item=\"row\" wx:for-index=\"ri\"><block wx:for=\"{{ row }}\"><input @B@/></block></block>", 's', Some(true)),
    ("for-list-of-lists-cond", "<block wx:for=\"{{ ll }}\" wx:for-item=\"row\"><block wx:for=\"{{ flag ? row : l2 }}\" wx:key=\"*this\"><input @B@/></block></block>", 's', Some(true)),
    ("for-literal-list", "<block wx:for=\"{{ [a, b] }}\"><input @B@/></block>", 's', Some(false)),
    ("for-cond-literal", "<block wx:for=\"{{ flag ? l2 : [a, b] }}\"><input @B@/></block>", 's', None),
    ("for-script-rows", "<block wx:for=\"{{ m.rows }}\" wx:key=\"k\"><input @B@/></block>", 'i', Some(false)),
    ("for-in-script-rows", "<block wx:for=\"{{ m.rows }}\" wx:for-item=\"row\"><block wx:for=\"{{ row.sub }}\"><input @B@/></block></block>", 'i', Some(false)),
];

const WXS11: &str = "<wxs module=\"m\">exports.f = function(a){ return 'f(' + a + ')' }; exports.k = 7; exports.rows = [{k: 1, v: 'r1', sub: [{k: 11, v: 's1'}]}, {k: 2, v: 'r2', sub: []}]</wxs>";

/// schedules per (position, expression) pair
const VARIANTS11: u64 = 8;

pub fn count11() -> u64 {
    let mut n = 0;
    for p in MODEL_POSITIONS {
        for e in MODEL_EXPRS {
            if p.2 == e.3 {
                n += 1;
            }
        }
    }
    n * VARIANTS11
}

pub fn world11(seed: u64, i: u64) -> Value {
    let mut k = i / VARIANTS11;
    for p in MODEL_POSITIONS {
        for e in MODEL_EXPRS {
            if p.2 != e.3 {
                continue;
            }
            if k == 0 {
                return build11(seed, i, p, e);
            }
            k -= 1;
        }
    }
    panic!("grid index out of range");
}

fn build11(seed: u64, i: u64, p: &(&str, &str, char, Option<bool>), e: &(&str, &[&str], Option<bool>, char)) -> Value {
    let mut r = Rng::fork(seed, &format!("grid11.{}", i));
    // is a path expected? only when both the expression form and the position say so for certain
    let root_only_expr = !e.0.contains("item") && !e.0.contains("index");
    let expect: Option<bool> = match (e.2, p.3) {
        (Some(false), _) => Some(false),
        (Some(true), _) if root_only_expr => Some(true),
        (Some(true), Some(true)) => Some(true),
        (Some(true), Some(false)) if e.0 == "list[index].v" || e.0 == "l2[index]" => Some(true),
        // a conditional with a root-data branch keeps that branch's path
        (Some(true), Some(false)) if e.0.contains('?') => None,
        (Some(true), Some(false)) => Some(false),
        _ => None,
    };
    // the names `nv`/`nval` assert "no path"; `value`/`val` assert nothing beyond get-put
    let native = if expect == Some(false) { "model:nv" } else { "model:value" };
    let child = if expect == Some(false) { "model:nval" } else { "model:val" };
    let src = format!(
        "{}{}",
        WXS11,
        p.1.replace("@B@", &format!("{}=\"{{{{ {} }}}}\"", native, e.0)).replace("@C@", &format!("{}=\"{{{{ {} }}}}\"", child, e.0))
    );
    let leaves: Vec<(Value, Value, Value)> = e.1.iter().map(|id| leaf(id)).collect();
    let mut state = vec![false; leaves.len()];
    let mut schedule: Vec<Value> = vec![];
    let mut u = 900;
    // lists the world reads by position outside a loop over them need every shifted position
    // re-marked (splice_safe); otherwise the runtime's own splice marks are what is wanted
    let indexed = e.0.contains("list[") || e.0.contains("l2[") || e.0.contains("ll[") || p.1.contains("list[") || p.1.contains("l2[");
    let splice = if indexed { "splice_safe" } else { "splice" };
    for round in 0..8 {
        // toggle a seeded subset of the leaves, then write through listeners
        let mut any = false;
        for (j, l) in leaves.iter().enumerate() {
            if r.chance(0.5) {
                state[j] = !state[j];
                let v = if state[j] { l.2.clone() } else { l.1.clone() };
                schedule.push(json!(["set", l.0, v]));
                any = true;
            }
        }
        if round % 3 == 2 {
            // structure moves under the listeners
            match r.below(4) {
                0 => schedule.push(json!([splice, ["list"], 0, 0, [{"k": 50 + round, "v": format!("n{}", round), "w": "x", "sub": []}]])),
                1 => schedule.push(json!(["reorder", ["list"], "reverse"])),
                2 => schedule.push(json!([splice, ["l2"], 0, 0, [format!("z{}", round)]])),
                _ if p.0.starts_with("for-list-of-lists") => schedule.push(json!([splice, ["ll"], 0, 0, [[format!("y{}", round)]]])),
                _ => schedule.push(json!(["reorder", ["l2"], "rotate"])),
            }
            any = true;
        }
        if any {
            schedule.push(json!(["flush"]));
        }
        let writes = r.range(1, 3);
        for _ in 0..writes {
            u += 1;
            schedule.push(json!(["model", r.below(8), format!("w{}", u)]));
        }
    }
    let mut components = vec![];
    let mut sources = vec![json!(["index", src])];
    let mut using = Map::new();
    if p.0 == "child" {
        components.push(crate::gen::catalogue_component("mchild"));
        sources.push(json!(["comp/mchild", crate::gen::catalogue_file("mchild").raw.unwrap_or_default()]));
        using.insert("mchild".into(), json!("mchild"));
    }
    components.push(json!({"is": "root", "methods": ["h1", "h2"], "path": "index", "root": true, "using": using}));
    json!({
        "engine": "runtime",
        "grid": {"position": p.0, "expression": e.0, "path_expected": expect, "leaves": e.1},
        "components": components,
        "config": {"backend": if r.chance(0.5) { "composed" } else { "shadow" }},
        "data": serde_json::from_str::<Value>(D0).unwrap(),
        "schedule": schedule,
        "scripts": [],
        "sources": sources,
        "indexed_lists": if indexed { json!([["list"], ["l2"], ["ll"]]) } else { json!([]) },
        "script_values": {"index#m:k": 7},
        "unreachable_fields": [],
        "root_path": "index",
        "tags": ["grid", format!("grid11_pos_{}", p.0)],
    })
}
