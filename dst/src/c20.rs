//! C20 — compilation is a deterministic function of the set of inputs.

use crate::common::*;
use crate::group_sim::*;
use crate::rng::{fnv, mix};
use crate::Args;
use serde_json::{json, Value};
use std::time::Instant;

const RULE: &str = "one run = one generated file set (2-6 templates with 3-8 data fields each, cross imports/includes, 0-3 scripts, inline WXS, optional extra runtime string, 1-3 stylesheets) executed once canonically (one group, sorted insertion, entropy stream 0, perfect sink) and m times perturbed, each in a fresh simulated process with its own entropy stream, insertion permutation, group partition + import_group tree, duplicate adds, overwritten earlier versions, interleaved emits and a faulty io::Write sink; all emit APIs compared byte-wise with the canonical execution. A case is one perturbed execution; distinct = hash of its explicit op schedule x the HashMap iteration order it observed; non-trivial = it belongs to a run in which at least two different HashMap iteration orders were observed (so hash-seed dependence could have shown).";

fn real_vs_stub() -> Value {
    json!({
        "real": ["glass-easel-template-compiler (TmplGroup and everything below it), rebuilt from /repo working tree", "glass-easel-stylesheet-compiler (from_css, StyleSheetOutput::write / write_source_map)", "std::collections::HashMap RandomState (keys drawn through the interposed getrandom)"],
        "simulated": ["OS entropy (getrandom symbol interposed; one stream per simulated process)", "a process = a fresh thread with fresh hash keys", "io::Write sink with short writes, EINTR and hard errors"],
        "stub": ["directory enumeration order of the CLI = permutation of add_tmpl calls (the CLI binary itself is not run)"],
    })
}

fn seed_of(seed: u64, i: u64) -> u64 {
    mix(seed, "C20", i)
}

struct RunOut {
    outcome: Outcome,
    stats: Stats,
    failing_exec: Option<usize>,
    log_hash: u64,
}

fn one_run(seed: u64, i: u64, thorough: bool) -> RunOut {
    let s = seed_of(seed, i);
    let (world, execs) = generate(s, thorough);
    let rep = run_world(&world, &execs);
    // event-log hash for the determinism self-test: everything the run decided and observed
    let mut h = String::new();
    h.push_str(&world_to_json(&world).to_string());
    for e in &execs {
        h.push_str(&exec_to_json(e).to_string());
    }
    h.push_str(&format!("{:?}|{:?}", rep.stats.counters, rep.stats.signatures));
    if let Outcome::Violated(v) = &rep.outcome {
        h.push_str(&v.class);
        h.push_str(&v.detail);
    }
    RunOut { outcome: rep.outcome, stats: rep.stats, failing_exec: rep.failing_exec, log_hash: fnv(h.as_bytes()) }
}

fn replay_value(seed: u64, run: u64, w: &GroupWorld, e: &GExec, v: &Violation, original_ops: usize, shrink_tried: usize) -> Value {
    json!({
        "property": "C20",
        "engine": "group",
        "verif_seed": seed.to_string(),
        "run_index": run,
        "class": v.class,
        "detail": v.detail,
        "world": world_to_json(w),
        "exec": exec_to_json(e),
        "note": format!("minimised from a schedule of {} group-API calls with {} candidate executions; the canonical execution is derived from the world (one group, sorted insertion, entropy stream 0, perfect sink)", original_ops, shrink_tried),
    })
}

pub fn check(args: &Args) -> i32 {
    let t0 = Instant::now();
    let thorough = args.tier == "thorough";
    let n = args.runs.unwrap_or(if thorough { 80_000 } else { 4_000 });
    let seed = args.seed;
    let outs = parallel_map(n, args.workers, move |i| one_run(seed, i, thorough));
    let mut stats = Stats::default();
    let mut violations: Vec<(u64, Violation, usize)> = vec![];
    let mut discards = 0u64;
    for (i, o) in outs.iter().enumerate() {
        stats.merge(&o.stats);
        match &o.outcome {
            Outcome::Held => {}
            Outcome::Discard(_) => discards += 1,
            Outcome::Violated(v) => violations.push((i as u64, v.clone(), o.failing_exec.unwrap_or(0))),
        }
    }
    let known = load_known_findings();
    let mut known_reported: Vec<Value> = vec![];
    let mut exit = 0;
    let mut reported_classes: Vec<String> = vec![];
    let mut new_violations = 0u64;
    for (run, v, ei) in &violations {
        if reported_classes.contains(&v.class) || reported_classes.len() >= 3 {
            continue;
        }
        reported_classes.push(v.class.clone());
        let (world, execs) = generate(seed_of(seed, *run), thorough);
        let exec = &execs[*ei];
        let (w2, e2, tried) = shrink(&world, exec, &v.class, 600);
        let v2 = check_pair(&w2, &e2).filter(|x| x.class == v.class).unwrap_or_else(|| v.clone());
        // a listed finding is identified by its class prefix + the minimised world's shape
        let matched = known.iter().find(|k| k.kind == "finding" && k.property == "C20" && !k.class_prefix.is_empty() && v2.class.starts_with(&k.class_prefix));
        if let Some(k) = matched {
            println!("KNOWN-FINDING: property=C20 {}", k.what);
            known_reported.push(json!({"id": k.id, "what": k.what, "run": run}));
            continue;
        }
        let rv = replay_value(seed, *run, &w2, &e2, &v2, exec.ops.len(), tried);
        let path = write_replay("C20", &format!("seed{}-run{}", seed, run), &rv);
        // confirm in a fresh process before reporting
        let confirmed = std::process::Command::new(std::env::current_exe().unwrap())
            .args(["replay", path.to_str().unwrap(), "--quiet"])
            .stdout(std::process::Stdio::null())
            .status()
            .map(|s| s.code() == Some(1))
            .unwrap_or(false);
        if !confirmed {
            harness_error(&format!("violation of class {} did not reproduce from its replay file {} in a fresh process", v2.class, path.display()));
        }
        println!("C20 violation class={} run={} (minimised: {} files, {} ops)\n{}", v2.class, run, w2.files.len(), e2.ops.len(), v2.detail);
        println!("VIOLATION property=C20 replay={}", path.display());
        new_violations += 1;
        exit = 1;
    }
    let evaluations = stats.counters.get("step.executions").copied().unwrap_or(0);
    // samples: three explicit executions
    let mut samples = vec![];
    for i in 0..3u64.min(n) {
        let (w, e) = generate(seed_of(seed, i), thorough);
        samples.push(json!({"run": i, "files": w.files.iter().map(|f| json!({"path": f.path, "src": f.src()})).collect::<Vec<_>>(), "scripts": w.scripts.len(), "css": w.css.iter().map(|c| c.rules.concat()).collect::<Vec<_>>(), "first_perturbed_execution": exec_to_json(&e[0])}));
    }
    stats.add("discard.total", discards);
    write_evidence(EvidenceInput {
        property: "C20",
        tier: &args.tier,
        seed,
        level: "exploration",
        evaluations,
        rule: RULE,
        samples,
        stats: &stats,
        wall_s: t0.elapsed().as_secs_f64(),
        violations: new_violations,
        known_findings: known_reported,
        assumptions: vec![
            "std resolves getrandom dynamically, so RandomState keys are a function of the simulated entropy stream (checked by the determinism self-test and by probe.runs_with_2plus_iteration_orders > 0)".into(),
            "a fresh thread stands for a fresh process: the compilers keep no mutable process-global state (only lazy_static regexes and the entity table)".into(),
            "remove_tmpl/remove_script are outside the workload (documented as doing no clean-up)".into(),
        ],
        real_vs_stub: real_vs_stub(),
        extra: json!({
            "runs": n,
            "perturbed_executions_per_run": if thorough { 24 } else { 8 },
            "entropy_requests_total": crate::entropy::TOTAL_CALLS.load(std::sync::atomic::Ordering::Relaxed),
            "distinct_measure": "distinct (explicit op schedule, observed HashMap iteration order) pairs",
        }),
    });
    println!(
        "C20 {}: runs={} executions={} distinct_nontrivial={} discards={} violations={} wall={:.1}s",
        args.tier,
        n,
        evaluations,
        stats.nontrivial_signatures.len(),
        discards,
        new_violations,
        t0.elapsed().as_secs_f64()
    );
    if exit == 0 && stats.counters.get("probe.runs_with_2plus_iteration_orders").copied().unwrap_or(0) == 0 && n >= 50 {
        harness_error("the entropy seam is not effective: no run observed two different HashMap iteration orders");
    }
    exit
}

pub fn replay(v: &Value, path: &str, quiet: bool) -> i32 {
    let w = world_from_json(&v["world"]);
    let e = exec_from_json(&v["exec"]);
    if std::env::var("GE_C20_REPEAT").is_ok() {
        crate::entropy::DEBUG.store(true, std::sync::atomic::Ordering::Relaxed);
        // debugging aid: is one (world, execution) pair judged the same way every time?
        for i in 0..6 {
            println!("repeat {}: {:?}", i, check_pair(&w, &e).map(|x| x.class));
        }
    }
    match check_pair(&w, &e) {
        Some(x) => {
            if !quiet {
                println!("replay {}: violation class={}\n{}", path, x.class, x.detail);
                println!("VIOLATION property=C20 replay={}", path);
            }
            1
        }
        None => {
            if !quiet {
                println!("replay {}: no violation on the current tree", path);
            }
            0
        }
    }
}

pub fn selftest_determinism(args: &Args) -> i32 {
    // every run twice, with 1 worker and with many, comparing event-log hashes
    let n = args.runs.unwrap_or(2000);
    let seed = args.seed;
    let a = parallel_map(n, 1, move |i| one_run(seed, i, false).log_hash);
    let b = parallel_map(n, args.workers.max(2), move |i| one_run(seed, i, false).log_hash);
    let bad: Vec<usize> = (0..n as usize).filter(|i| a[*i] != b[*i]).collect();
    if !bad.is_empty() {
        println!("DETERMINISM-FAIL engine=group runs {:?}", &bad[..bad.len().min(10)]);
        return 2;
    }
    println!("determinism engine=group: {} runs x2 (1 worker vs {} workers) identical; fingerprint {:016x}", n, args.workers.max(2), fnv(format!("{:?}", a).as_bytes()));
    0
}
