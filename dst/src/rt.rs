//! Engine B — the runtime-world simulator: C06, C07, C11 (C14 in c14.rs builds on it).

use crate::common::*;
use crate::compile::compile_group;
use crate::gen::Prop;
use crate::node::NodeWorker;
use crate::rng::{fnv, mix};
use crate::shrink;
use crate::world::*;
use crate::Args;
use serde_json::{json, Value};
use std::cell::RefCell;
use std::time::Instant;

pub fn prop_name(p: Prop) -> &'static str {
    match p {
        Prop::C06 => "C06",
        Prop::C07 => "C07",
        Prop::C11 => "C11",
        Prop::C14 => "C14",
    }
}

pub fn seed_of(seed: u64, prop: Prop, i: u64) -> u64 {
    mix(seed, prop_name(prop), i)
}

thread_local! {
    static WORKER: RefCell<Option<NodeWorker>> = const { RefCell::new(None) };
}

pub fn with_worker<T>(f: impl FnOnce(&mut NodeWorker) -> T) -> T {
    WORKER.with(|w| {
        let mut w = w.borrow_mut();
        if w.is_none() {
            *w = Some(NodeWorker::new());
        }
        f(w.as_mut().unwrap())
    })
}

#[derive(Clone, Debug)]
pub struct RunResult {
    pub outcome: Outcome,
    pub stats: Stats,
    pub log_hash: String,
    pub executable: bool,
    pub step: u64,
    pub raw: Value,
}

/// Compile the explicit world with the working-tree compiler and build the executor job.
pub fn build_job(ew: &Value, want_log: bool) -> Result<Value, String> {
    let pairs = |k: &str| -> Vec<(String, String)> {
        ew[k].as_array().map(|a| a.iter().map(|x| (x[0].as_str().unwrap_or("").to_string(), x[1].as_str().unwrap_or("").to_string())).collect()).unwrap_or_default()
    };
    let c = compile_group(&pairs("sources"), &pairs("scripts"))?;
    Ok(json!({
        "kind": "world",
        "bundle": c.bundle,
        "components": ew["components"],
        "data": ew["data"],
        "config": ew["config"],
        "schedule": ew["schedule"],
        "indexedLists": ew["indexed_lists"],
        "scriptValues": ew["script_values"],
        "unreachableFields": ew["unreachable_fields"],
        "wantLog": want_log,
    }))
}

pub fn interpret(prop: &str, resp: Result<Value, String>) -> RunResult {
    let mut stats = Stats::default();
    let resp = match resp {
        Ok(v) => v,
        Err(e) => {
            stats.add("discard.executor_failure", 1);
            return RunResult { outcome: Outcome::Discard(e), stats, log_hash: String::new(), executable: false, step: 0, raw: Value::Null };
        }
    };
    let status = resp["status"].as_str().unwrap_or("");
    if status != "ok" {
        stats.add("discard.unexecutable_world", 1);
        let reason = resp["reason"].as_str().unwrap_or(status).to_string();
        return RunResult { outcome: Outcome::Discard(format!("unexecutable: {}", reason)), stats, log_hash: String::new(), executable: false, step: 0, raw: resp };
    }
    if let Some(c) = resp["counters"].as_object() {
        for (k, v) in c {
            stats.add(k, v.as_u64().unwrap_or(0));
        }
    }
    let log_hash = resp["logHash"].as_str().unwrap_or("").to_string();
    stats.add_to_set("event_logs", fnv(log_hash.as_bytes()));
    if let Some(a) = resp["uShapes"].as_array() {
        for x in a {
            if let Some(s) = x.as_str() {
                stats.add_to_set("update_path_tree_shapes", fnv(s.as_bytes()));
            }
        }
    }
    if let Some(a) = resp["treeShapes"].as_array() {
        for x in a {
            if let Some(s) = x.as_str() {
                stats.add_to_set("node_tree_shapes", fnv(s.as_bytes()));
            }
        }
    }
    let step = resp["steps"].as_u64().unwrap_or(0);
    let outcome = if resp["violation"].is_object() {
        let vp = resp["violation"]["property"].as_str().unwrap_or("");
        let class = resp["violation"]["class"].as_str().unwrap_or("").to_string();
        let detail = resp["violation"]["detail"].as_str().unwrap_or("").to_string();
        if vp == prop {
            Outcome::Violated(Violation { class, detail })
        } else {
            stats.add(&format!("discard.ended_by_violation_of_{}", vp), 1);
            Outcome::Discard(format!("ended by a violation attributed to {} ({})", vp, class))
        }
    } else {
        Outcome::Held
    };
    RunResult { outcome, stats, log_hash, executable: true, step, raw: resp }
}

pub fn run_explicit(prop: &str, ew: &Value, want_log: bool) -> RunResult {
    let t = Instant::now();
    let bj = build_job(ew, want_log);
    T_BUILD.fetch_add(t.elapsed().as_micros() as u64, std::sync::atomic::Ordering::Relaxed);
    match bj {
        Ok(job) => {
            let t = Instant::now();
            let resp = with_worker(|w| w.call(job));
            T_CALL.fetch_add(t.elapsed().as_micros() as u64, std::sync::atomic::Ordering::Relaxed);
            if std::env::var("GE_TIMING").is_ok() && t.elapsed().as_millis() > 500 {
                eprintln!("slow call {} ms: {}", t.elapsed().as_millis(), ew["sources"][0][1]);
            }
            interpret(prop, resp)
        }
        Err(e) => {
            let mut stats = Stats::default();
            stats.add("discard.compile_failed", 1);
            RunResult { outcome: Outcome::Discard(format!("unexecutable: compile: {}", e)), stats, log_hash: String::new(), executable: false, step: 0, raw: Value::Null }
        }
    }
}

fn world_signature(w: &World) -> u64 {
    // template shape x op-kind sequence x flush pattern
    let mut s = String::new();
    for (_, src) in w.sources() {
        s.push_str(&src);
    }
    for op in &w.schedule {
        s.push_str(op[0].as_str().unwrap_or(""));
        s.push(',');
    }
    s.push_str(&w.config.update_mode);
    fnv(s.as_bytes())
}

pub struct OneRun {
    pub result: RunResult,
    pub sig: u64,
    pub nontrivial: bool,
}

pub static T_GEN: std::sync::atomic::AtomicU64 = std::sync::atomic::AtomicU64::new(0);
pub static T_BUILD: std::sync::atomic::AtomicU64 = std::sync::atomic::AtomicU64::new(0);
pub static T_CALL: std::sync::atomic::AtomicU64 = std::sync::atomic::AtomicU64::new(0);

/// every third run of the thorough tier is a deep one (larger template, 12-36 ops)
pub fn world_for_run(seed: u64, prop: Prop, i: u64, thorough: bool) -> World {
    crate::gen::generate_with(seed_of(seed, prop, i), prop, thorough && i % 3 == 0)
}

pub fn one_run(seed: u64, prop: Prop, i: u64, thorough: bool) -> OneRun {
    let t = Instant::now();
    let w = world_for_run(seed, prop, i, thorough);
    let ew = world_to_json(&w);
    T_GEN.fetch_add(t.elapsed().as_micros() as u64, std::sync::atomic::Ordering::Relaxed);
    let mut r = run_explicit(prop_name(prop), &ew, false);
    let sig = world_signature(&w);
    let changed = r.stats.counters.get("step.flushes_changed_tree").copied().unwrap_or(0);
    let evals = r.stats.counters.get("step.oracle_evaluations").copied().unwrap_or(0);
    let nontrivial = r.executable && changed >= 1 && evals >= 1;
    r.stats.signatures.insert(sig);
    if nontrivial {
        r.stats.nontrivial_signatures.insert(sig);
    }
    // configured knobs
    r.stats.add(&format!("cfg.update_mode.{}", if w.config.update_mode.is_empty() { "default" } else { &w.config.update_mode }), 1);
    r.stats.add(&format!("cfg.backend.{}", w.config.backend), 1);
    r.stats.add(&format!("cfg.data_deep_copy.{}", if w.config.data_deep_copy.is_empty() { "default" } else { &w.config.data_deep_copy }), 1);
    r.stats.add(&format!("cfg.prop_deep_copy.{}", if w.config.prop_deep_copy.is_empty() { "default" } else { &w.config.prop_deep_copy }), 1);
    for op in &w.schedule {
        r.stats.add(&format!("cfg.op.{}", op[0].as_str().unwrap_or("")), 1);
    }
    for t in world_tags(&w) {
        if !t.starts_with("op_") {
            r.stats.add(&format!("cfg.feature.{}", t), 1);
        }
    }
    OneRun { result: r, sig, nontrivial }
}

fn rule(prop: Prop) -> String {
    let common = "one run = one generated world (root template AST of <= ~25 nodes over a fixed data schema, 0-2 extra WXML files, WXS modules, child components from a catalogue incl. multiple/dynamic slots and a model-bound child, config knobs updateMode/backend/deep-copy) compiled by the working-tree compiler, instantiated in the real runtime, then driven by an explicit schedule of 1-12 data operations with seeded flush points (batching, single-top-level changes, splices, reorders, type flips, coarse and no-op marks, model writes, child writes, explicit update-path trees incl. `true`). After every flush the precondition monitor checks that the update-path tree handed to the generated code covers the required marks of the batch; runs end at the first uncovered flush. distinct = hash(template sources x op-kind sequence x updateMode); non-trivial = executable, at least one flush changed the node tree and at least one oracle evaluation took place. After the random runs the check walks a fixed grid of small explicit worlds (see coverage.grid), whose counters are merged into the same totals. Children: catalogue of 10 components (single / multiple / dynamic / named dynamic slots, slots in sub-templates, slot values from the child's own state changed by child_state ops, model-bound and nested-model children); after a flush that updated a child template the child's shadow tree is also compared with a pure creation of that child.";
    let specific = match prop {
        Prop::C06 => " Oracle: live tree == tree of a fresh instance created with a deep clone of the live data (tree-path flushes); an update that throws where such a creation succeeds is a violation too.",
        Prop::C07 => " Oracle: same comparison after flushes that took the binding-map fast path, plus: no field used in a position the map cannot reach is advertised in B. Schedules are biased to single top-level changes.",
        Prop::C11 => " Oracle: at every R.r/R.v/R.p/R.l call that carries an l-value path the path addresses the value passed (get), a write through a live model listener lands at the path it holds (put), after every flush every live model listener's path still addresses what its element displays, script paths name the function passed, non-assignable expressions receive no path, an event delivered to any registered listener reaches the handler and path the element was last bound with, writes through inputs inside model-bound children land in the child and in the host.",
        Prop::C14 => "",
    };
    format!("{}{}", common, specific)
}

fn real_vs_stub() -> Value {
    json!({
        "real": [
            "template compiler (parse, proc_gen, binding map, path analysis), rebuilt from /repo working tree",
            "glass-easel/src runtime: ComponentSpace, Component, DataGroup, GlassEaselTemplateInstance, ProcGenWrapper, RangeListManager, ShadowRoot slot logic (real TypeScript source, type-stripped at load)",
        ],
        "simulated": ["timers and clock in the executor (discrete-event queue drained at schedule-defined points)"],
        "stub": [
            "backend: the repository's own EmptyComposedBackendContext / EmptyBackendContext (no DOM), and in half of the worlds the repository's in-memory test backend tests/base/composed_backend.ts (real child lists; its order is part of the compared tree)",
            "TypeScript compilation: replaced by the loader in /verif/node/hooks.mjs (trusted base; conformance-tested)",
        ],
    })
}

pub fn check(args: &Args, prop: Prop) -> i32 {
    let t0 = Instant::now();
    let pname = prop_name(prop);
    let thorough = args.tier == "thorough";
    let n = args.runs.unwrap_or(match (prop, thorough) {
        (Prop::C06, true) => 1_200_000,
        (_, true) => 1_000_000,
        (_, false) => 12_000,
    });
    let seed = args.seed;
    let outs = parallel_map(n, args.workers, move |i| one_run(seed, prop, i, thorough));
    let mut stats = Stats::default();
    let mut violations: Vec<(u64, Violation)> = vec![];
    let mut executable = 0u64;
    let mut unexec_reasons: std::collections::BTreeMap<String, u64> = Default::default();
    for (i, o) in outs.iter().enumerate() {
        stats.merge(&o.result.stats);
        if o.result.executable {
            executable += 1;
        } else if let Outcome::Discard(r) = &o.result.outcome {
            let key: String = r.chars().take(90).collect();
            *unexec_reasons.entry(key).or_insert(0) += 1;
            if std::env::var("GE_SHOW_UNEXEC").is_ok() {
                eprintln!("unexecutable run={} {}", i, r.chars().take(600).collect::<String>());
            }
        }
        if let Outcome::Violated(v) = &o.result.outcome {
            violations.push((i as u64, v.clone()));
        }
    }
    if std::env::var("GE_TIMING").is_ok() {
        eprintln!("timing(us, summed over workers): gen={} build={} call={}", T_GEN.load(std::sync::atomic::Ordering::Relaxed), T_BUILD.load(std::sync::atomic::Ordering::Relaxed), T_CALL.load(std::sync::atomic::Ordering::Relaxed));
    }
    let exec_rate = executable as f64 / n.max(1) as f64;
    let run_phase_s = t0.elapsed().as_secs_f64();
    let known = load_known_findings();
    let mut known_reported: Vec<Value> = vec![];
    let mut known_seen: std::collections::BTreeSet<String> = Default::default();
    let mut exit = 0;
    let mut new_violations = 0u64;
    let mut reported_sigs: Vec<String> = vec![];
    let mut shrunk = 0;
    for (run, v) in &violations {
        let max_report: u64 = std::env::var("GE_MAX_REPORT").ok().and_then(|s| s.parse().ok()).unwrap_or(3);
        if new_violations >= max_report || shrunk >= 60 {
            break;
        }
        shrunk += 1;
        let w = world_for_run(seed, prop, *run, thorough);
        let (w2, v2, tried, locus) = shrink::shrink_world(pname, &w, &v.class, 500);
        let tags = world_tags(&w2);
        if let Some(k) = shrink::match_known(&known, pname, &v2.class, &tags, &locus) {
            if known_seen.insert(k.id.clone()) {
                println!("KNOWN-FINDING: property={} {}", pname, k.what);
                known_reported.push(json!({"id": k.id, "what": k.what, "first_run": run}));
            }
            stats.add(&format!("probe.known_finding.{}", k.id), 1);
            continue;
        }
        let sig = format!("{}|{:?}", v2.class, tags);
        if reported_sigs.contains(&sig) {
            continue;
        }
        reported_sigs.push(sig);
        let mut rv = world_to_json(&w2);
        rv["property"] = json!(pname);
        rv["engine"] = json!("runtime");
        rv["verif_seed"] = json!(seed.to_string());
        rv["run_index"] = json!(run);
        rv["class"] = json!(v2.class);
        rv["detail"] = json!(v2.detail);
        rv["locus"] = json!(locus);
        rv["note"] = json!(format!("minimised with {} candidate executions from a schedule of {} ops", tried, w.schedule.len()));
        let path = write_replay(pname, &format!("seed{}-run{}", seed, run), &rv);
        let confirmed = std::process::Command::new(std::env::current_exe().unwrap())
            .args(["replay", path.to_str().unwrap(), "--quiet"])
            .stdout(std::process::Stdio::null())
            .status()
            .map(|s| s.code() == Some(1))
            .unwrap_or(false);
        if !confirmed {
            harness_error(&format!("violation of class {} did not reproduce from its replay file {} in a fresh process", v2.class, path.display()));
        }
        println!("{} violation class={} run={} tags={:?}\n{}", pname, v2.class, run, tags, v2.detail);
        for (p, s) in w2.sources() {
            if !p.starts_with("comp/") {
                println!("  [{}] {}", p, s);
            }
        }
        println!("  data: {}\n  config: {}\n  schedule: {}", w2.data, w2.config_json(), Value::Array(w2.schedule.clone()));
        println!("VIOLATION property={} replay={}", pname, path.display());
        new_violations += 1;
        exit = 1;
    }
    // the systematic part: expression form x binding position x changed subset x marking style
    // the thorough tier walks the grid several times: other subset orders, knobs and schedules
    let grid_base = match prop {
        Prop::C06 | Prop::C07 => crate::grid::count(),
        Prop::C11 => crate::grid::count11(),
        _ => 0,
    };
    let grid_rounds: u64 = if thorough { 12 } else { 1 };
    let grid_world = move |i: u64| {
        let round = i / grid_base.max(1);
        let idx = i % grid_base.max(1);
        let s = if round == 0 { seed } else { mix(seed, "grid.round", round) };
        if prop == Prop::C11 {
            crate::grid::world11(s, idx)
        } else {
            crate::grid::world(s, idx)
        }
    };
    let grid_n = grid_base * grid_rounds;
    let gouts = parallel_map(grid_n, args.workers, move |i| run_explicit(prop_name(prop), &grid_world(i), false));
    let mut grid_reported: Vec<String> = vec![];
    let mut grid_violating = 0u64;
    for (i, g) in gouts.iter().enumerate() {
        stats.merge(&g.stats);
        stats.add("grid.worlds", 1);
        if g.executable {
            stats.add("grid.worlds_executed", 1);
        }
        if let Outcome::Violated(v) = &g.outcome {
            grid_violating += 1;
            let mut rv = grid_world(i as u64);
            let sig = format!("{}|{}|{}", v.class, rv["grid"]["position"], rv["grid"]["expression"]);
            if grid_reported.len() as u64 >= std::env::var("GE_MAX_REPORT").ok().and_then(|s| s.parse().ok()).unwrap_or(3) || grid_reported.contains(&sig) {
                continue;
            }
            grid_reported.push(sig);
            rv["property"] = json!(pname);
            rv["verif_seed"] = json!(seed.to_string());
            rv["run_index"] = json!(format!("grid-{}", i));
            rv["class"] = json!(v.class);
            rv["detail"] = json!(v.detail);
            let path = write_replay(pname, &format!("seed{}-grid{}", seed, i), &rv);
            let confirmed = std::process::Command::new(std::env::current_exe().unwrap())
                .args(["replay", path.to_str().unwrap(), "--quiet"])
                .stdout(std::process::Stdio::null())
                .status()
                .map(|s| s.code() == Some(1))
                .unwrap_or(false);
            if !confirmed {
                harness_error(&format!("grid violation of class {} did not reproduce from its replay file {} in a fresh process", v.class, path.display()));
            }
            println!("{} violation class={} grid world {} ({})
{}", pname, v.class, i, rv["grid"], v.detail);
            println!("  [index] {}
  schedule: {}", rv["sources"][0][1], rv["schedule"]);
            println!("VIOLATION property={} replay={}", pname, path.display());
            new_violations += 1;
            exit = 1;
        }
    }
    // every listed finding is also replayed: still failing => KNOWN-FINDING line, else INFO
    for k in known.iter().filter(|k| k.kind == "finding" && k.property == pname) {
        if let Some(rp) = &k.replay {
            let p = verif_dir().join(rp);
            if let Ok(v) = read_json(&p) {
                let r = run_explicit(pname, &v, false);
                match r.outcome {
                    Outcome::Violated(_) => {
                        if known_seen.insert(k.id.clone()) {
                            println!("KNOWN-FINDING: property={} {}", pname, k.what);
                            known_reported.push(json!({"id": k.id, "what": k.what, "from": "replay of the listed file"}));
                        }
                    }
                    _ => println!("INFO: known finding {} no longer reproduces from {} (it should become a `fixed` entry)", k.id, rp),
                }
            }
        }
    }
    let mut samples = vec![];
    for i in 0..3u64.min(n) {
        let w = world_for_run(seed, prop, i, thorough);
        samples.push(json!({"run": i, "sources": w.sources().iter().filter(|(p, _)| !p.starts_with("comp/")).map(|(p, s)| json!([p, s])).collect::<Vec<_>>(), "data": w.data, "config": w.config_json(), "schedule": w.schedule}));
    }
    let evaluations = n;
    let flushes = stats.counters.get("step.flush").copied().unwrap_or(0);
    let changed = stats.counters.get("step.flushes_changed_tree").copied().unwrap_or(0);
    write_evidence(EvidenceInput {
        property: pname,
        tier: &args.tier,
        seed,
        level: "exploration",
        evaluations,
        rule: &rule(prop),
        samples,
        stats: &stats,
        wall_s: t0.elapsed().as_secs_f64(),
        violations: new_violations,
        known_findings: known_reported,
        assumptions: vec![
            "loader fidelity: /verif/node/hooks.mjs reproduces tsc's output for glass-easel/src (type stripping, const-enum inlining, import elision); checked by `./check selftest conformance`".into(),
            "the repository's Empty(Composed)BackendContext stands for a rendering backend; nothing is claimed about DOM backends".into(),
            "forced `bindingMap` update mode is outside the workload (the runtime performs no fallback there by design)".into(),
            "Node >= 22.6 (stripTypeScriptTypes)".into(),
        ],
        real_vs_stub: real_vs_stub(),
        extra: json!({
            "executable_worlds": executable,
            "executable_rate": exec_rate,
            "unexecutable_reasons": unexec_reasons,
            "flushes": flushes,
            "flushes_that_changed_the_tree": changed,
            "violating_runs_before_dedup": violations.len(),
            "run_phase_wall_s": run_phase_s,
            "grid": {"worlds": grid_n, "violating": grid_violating, "what": if prop == Prop::C11 { "systematic sweep: every access-chain form and every look-alike that is not assignable, as a model: binding in every scope position (root, wx:if, keyed/unkeyed/nested/renamed loops, loops over scalars, literal lists, conditional lists and script-module lists, a model-bound child); 8 rounds of seeded data toggles, splices and reorders alternating with writes through the live listeners" } else { "systematic sweep: every expression form of a catalogue in every binding position of a catalogue; for each such small template every non-empty subset of the expression's dependency leaves is the changed set of one update (order drawn from the seed), under five marking styles: exact tree, coarsened tree, `true`, the runtime's own tree for a batch, one change per flush (fast path where advertised)" }},
            "distinct_measure": "distinct (template sources, op-kind sequence, updateMode) triples; event-log hashes are compared across processes by `./check selftest determinism`",
        }),
    });
    println!(
        "{} {}: runs={} (+{} grid worlds) executable={:.1}% flushes={} changed_tree={} distinct_nontrivial={} violating_runs={} new_violations={} run_phase={:.1}s wall={:.1}s",
        pname,
        args.tier,
        n,
        grid_n,
        exec_rate * 100.0,
        flushes,
        changed,
        stats.nontrivial_signatures.len(),
        violations.len(),
        new_violations,
        run_phase_s,
        t0.elapsed().as_secs_f64()
    );
    if exit == 0 && n >= 100 && exec_rate < 0.9 {
        harness_error(&format!("only {:.1}% of generated worlds are executable (< 90%): {:?}", exec_rate * 100.0, unexec_reasons));
    }
    exit
}

pub fn replay(v: &Value, path: &str, quiet: bool) -> i32 {
    let prop = v["property"].as_str().unwrap_or("");
    let r = run_explicit(prop, v, !quiet);
    match &r.outcome {
        Outcome::Violated(x) => {
            if !quiet {
                if let Some(log) = r.raw["log"].as_array() {
                    for l in log {
                        let s = l.as_str().unwrap_or("");
                        println!("  | {}", s.chars().take(400).collect::<String>());
                    }
                }
                println!("replay {}: violation class={}\n{}", path, x.class, x.detail);
                println!("VIOLATION property={} replay={}", prop, path);
            }
            1
        }
        Outcome::Discard(d) => {
            if !quiet {
                println!("replay {}: run discarded on the current tree: {}", path, d);
            }
            0
        }
        Outcome::Held => {
            if !quiet {
                if std::env::var("GE_REPLAY_LOG").is_ok() {
                    if let Some(log) = r.raw["log"].as_array() {
                        for l in log {
                            println!("  | {}", l.as_str().unwrap_or("").chars().take(600).collect::<String>());
                        }
                    }
                }
                println!("replay {}: no violation on the current tree", path);
            }
            0
        }
    }
}

pub fn determinism_hashes(seed: u64, prop: Prop, n: u64, workers: usize) -> Vec<String> {
    parallel_map(n, workers, move |i| {
        let r = one_run(seed, prop, i, false);
        format!("{}|{:?}|{:?}", r.result.log_hash, r.result.stats.counters, matches!(r.result.outcome, Outcome::Violated(_)))
    })
}
