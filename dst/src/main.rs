//! ge-dst — deterministic simulation with fault injection for glass-easel.
//! See /verif/DESIGN.md. Exit codes: 0 held, 1 violation, 2 harness error.

mod c13;
mod c14;
mod c14grid;
mod c20;
mod common;
mod compile;
mod conformance;
mod entropy;
mod gen;
mod grid;
mod group_sim;
mod node;
mod rng;
mod rt;
mod shrink;
mod world;

use common::*;

pub struct Args {
    pub tier: String,
    pub seed: u64,
    pub runs: Option<u64>,
    pub workers: usize,
    pub quiet: bool,
    pub rest: Vec<String>,
}

fn parse_args(argv: &[String]) -> Args {
    let mut a = Args {
        tier: std::env::var("VERIF_TIER").ok().filter(|s| s == "quick" || s == "thorough").unwrap_or_else(|| "quick".into()),
        seed: std::env::var("VERIF_SEED").ok().and_then(|s| s.trim().parse::<u64>().ok()).unwrap_or(DEFAULT_SEED),
        runs: None,
        workers: std::thread::available_parallelism().map(|n| n.get()).unwrap_or(4).min(16),
        quiet: false,
        rest: vec![],
    };
    let mut i = 0;
    while i < argv.len() {
        match argv[i].as_str() {
            "--tier" => {
                i += 1;
                a.tier = argv.get(i).cloned().unwrap_or_else(|| "quick".into());
            }
            "--seed" => {
                i += 1;
                a.seed = argv.get(i).and_then(|s| s.parse().ok()).unwrap_or(DEFAULT_SEED);
            }
            "--runs" => {
                i += 1;
                a.runs = argv.get(i).and_then(|s| s.parse().ok());
            }
            "--workers" => {
                i += 1;
                a.workers = argv.get(i).and_then(|s| s.parse().ok()).unwrap_or(a.workers).max(1);
            }
            "--quiet" => a.quiet = true,
            "--dev" => {}
            x => a.rest.push(x.to_string()),
        }
        i += 1;
    }
    if a.tier != "quick" && a.tier != "thorough" {
        harness_error("tier must be quick or thorough");
    }
    a
}

fn main() {
    let argv: Vec<String> = std::env::args().skip(1).collect();
    if argv.is_empty() {
        harness_error("usage: ge-dst <C06|C07|C11|C13|C14|C20|replay|selftest> [--tier quick|thorough] [--seed N] [--runs N] [--workers N]");
    }
    // panics of the compiler under test are caught and counted; keep stderr quiet
    std::panic::set_hook(Box::new(|_| {}));
    let cmd = argv[0].clone();
    let args = parse_args(&argv[1..]);
    // the seed is the first thing logged
    if cmd != "compile" {
        println!("VERIF_SEED={} tier={} cmd={} workers={}", args.seed, args.tier, cmd, args.workers);
    }
    // process-wide lazily initialised state of the code under test (entity tables, regexes) is
    // built here, outside every simulated process: otherwise the first simulated process of an OS
    // process differs from all later ones (its thread creates extra `RandomState`s), and a replay
    // in a fresh OS process would not see what a long-running check saw
    group_sim::warm_up();
    // a repaired defect must stay repaired: the recorded world of every `fixed` entry of this
    // property is replayed first (a fixed entry suppresses nothing)
    let mut regressed: Vec<String> = vec![];
    if matches!(cmd.as_str(), "C06" | "C07" | "C11" | "C13" | "C14" | "C20") {
        for k in load_known_findings().iter().filter(|k| k.kind == "fixed" && k.property == cmd) {
            for rp in &k.replays {
                let p = verif_dir().join(rp);
                let Ok(v) = read_json(&p) else { harness_error(&format!("fixed finding {}: replay file {} is missing or unreadable", k.id, rp)) };
                FIXED_REPLAYED.fetch_add(1, std::sync::atomic::Ordering::Relaxed);
                let ps = p.to_string_lossy().to_string();
                let rc = match v["engine"].as_str().unwrap_or("") {
                    "group" => c20::replay(&v, &ps, true),
                    "runtime" => rt::replay(&v, &ps, true),
                    "lockstep" => c14::replay(&v, &ps, true),
                    "pairs" | "links" => c13::replay(&v, &ps, true),
                    _ => 0,
                };
                if rc == 1 {
                    FIXED_VIOLATING.fetch_add(1, std::sync::atomic::Ordering::Relaxed);
                    println!("{} violation: the repaired defect {} is back ({})", cmd, k.id, k.what);
                    regressed.push(ps);
                }
            }
        }
    }
    let code = match cmd.as_str() {
        "C20" => c20::check(&args),
        "C06" => rt::check(&args, gen::Prop::C06),
        "C07" => rt::check(&args, gen::Prop::C07),
        "C11" => rt::check(&args, gen::Prop::C11),
        "C13" => c13::check(&args),
        "C14" => c14::check(&args),
        "diag" => {
            // print the diagnostics of a source given on stdin (debugging aid)
            let mut inp = String::new();
            std::io::Read::read_to_string(&mut std::io::stdin(), &mut inp).unwrap();
            let (_t, mut st) = glass_easel_template_compiler::parse::parse("index", &inp);
            for w in st.take_warnings() {
                println!("{:?} level>=Warn:{} {}", w.kind, w.level() >= glass_easel_template_compiler::parse::ParseErrorLevel::Warn, w);
            }
            if let Ok(m) = c14::reprint("index", &inp, true) {
                println!("mangled : {}", m.text);
                println!("repaired: {:?}", c14::declare_mangled_for_names(&m.text));
            }
            if let Ok(r1) = c14::reprint("index", &inp, false) {
                println!("print 1: {}", r1.text);
                if let Ok(r2) = c14::reprint("index", &r1.text, false) {
                    println!("print 2: {}  (diagnostics of print 1: {:?})", r2.text, r1.warn_or_worse.len().min(0) + r2.warn_or_worse.len());
                }
            }
            0
        }
        "jobs" => {
            // dump executor jobs as NDJSON (benchmarking / debugging aid)
            let n: u64 = args.runs.unwrap_or(100);
            for i in 0..n {
                let w = gen::generate(rt::seed_of(args.seed, gen::Prop::C06, i), gen::Prop::C06);
                if let Ok(mut j) = rt::build_job(&world::world_to_json(&w), false) {
                    j["id"] = serde_json::json!(i);
                    println!("{}", j);
                }
            }
            0
        }
        "gridworld" => {
            // print explicit grid worlds (debugging aid): gridworld <C06|C11|C14> [substring]
            let which = args.rest.first().cloned().unwrap_or_default();
            let filter = args.rest.get(1).cloned().unwrap_or_default();
            let n = match which.as_str() {
                "C11" => grid::count11(),
                "C14" => c14grid::count(),
                _ => grid::count(),
            };
            for i in 0..n {
                let w = match which.as_str() {
                    "C11" => grid::world11(args.seed, i),
                    "C14" => c14grid::world(args.seed, i),
                    _ => grid::world(args.seed, i),
                };
                let g = w["grid"].to_string();
                if filter.is_empty() {
                    println!("{} {}", i, g);
                } else if g.contains(&filter) {
                    let mut w = w;
                    w["property"] = serde_json::json!(which);
                    println!("{}", w);
                    break;
                }
            }
            0
        }
        "gen" => {
            // print generated worlds (debugging aid)
            let prop = match args.rest.first().map(|s| s.as_str()) {
                Some("C07") => gen::Prop::C07,
                Some("C11") => gen::Prop::C11,
                Some("C14") => gen::Prop::C14,
                _ => gen::Prop::C06,
            };
            let i: u64 = args.rest.get(1).and_then(|s| s.parse().ok()).unwrap_or(0);
            let w = gen::generate(rt::seed_of(args.seed, prop, i), prop);
            println!("{}", serde_json::to_string_pretty(&world::world_to_json(&w)).unwrap());
            0
        }
        "replay" => {
            let Some(p) = args.rest.first() else { harness_error("replay needs a file") };
            let v = read_json(std::path::Path::new(p)).unwrap_or_else(|e| harness_error(&e));
            match v["engine"].as_str().unwrap_or("") {
                "group" => c20::replay(&v, p, args.quiet),
                "runtime" => rt::replay(&v, p, args.quiet),
                "lockstep" => c14::replay(&v, p, args.quiet),
                "pairs" | "links" => c13::replay(&v, p, args.quiet),
                x => harness_error(&format!("unknown engine in replay file: {}", x)),
            }
        }
        "compile" => {
            let mut inp = String::new();
            std::io::Read::read_to_string(&mut std::io::stdin(), &mut inp).unwrap();
            let v: serde_json::Value = serde_json::from_str(&inp).unwrap_or_else(|e| harness_error(&e.to_string()));
            let pairs = |k: &str| -> Vec<(String, String)> {
                v[k].as_array().map(|a| a.iter().map(|x| (x[0].as_str().unwrap_or("").to_string(), x[1].as_str().unwrap_or("").to_string())).collect()).unwrap_or_default()
            };
            match compile::compile_group_opt(&pairs("files"), &pairs("scripts"), argv.iter().any(|a| a == "--dev")) {
                Ok(c) => {
                    eprintln!("warn_or_worse={}", c.warn_or_worse);
                    print!("{}", c.bundle);
                    0
                }
                Err(e) => harness_error(&e),
            }
        }
        "selftest" => match args.rest.first().map(|s| s.as_str()) {
            Some("determinism") => selftest_determinism(&args),
            Some("fingerprint") => {
                // printed by a child process of `selftest determinism`
                let n = args.runs.unwrap_or(300);
                println!("FINGERPRINT {}", fingerprints(args.seed, n, args.workers).join(" "));
                0
            }
            Some("conformance") => conformance::run(),
            _ => harness_error("selftest determinism|conformance"),
        },
        x => harness_error(&format!("unknown command {}", x)),
    };
    let mut code = code;
    if code == 0 || code == 1 {
        for p in &regressed {
            println!("VIOLATION property={} replay={}", cmd, p);
            code = 1;
        }
    }
    std::process::exit(code);
}

/// Event-log fingerprints of every engine for run indices 0..n (seed fixed).
fn fingerprints(seed: u64, n: u64, workers: usize) -> Vec<String> {
    let f = |v: Vec<String>| format!("{:016x}", rng::fnv(v.join("\n").as_bytes()));
    vec![
        f(rt::determinism_hashes(seed, gen::Prop::C06, n, workers)),
        f(rt::determinism_hashes(seed, gen::Prop::C07, n, workers)),
        f(rt::determinism_hashes(seed, gen::Prop::C11, n, workers)),
        f(c14::determinism_hashes(seed, n, workers)),
        f(c13::determinism_hashes(seed, n, workers)),
    ]
}

/// Every run twice and more: 1 worker vs many workers in this process, and again in fresh OS
/// processes with other worker counts; event-log hashes must agree run by run.
fn selftest_determinism(args: &Args) -> i32 {
    let n = args.runs.unwrap_or(2000);
    let seed = args.seed;
    let mut code = c20::selftest_determinism(args);
    let engines: Vec<(&str, Box<dyn Fn(usize) -> Vec<String>>)> = vec![
        ("runtime/C06", Box::new(move |w| rt::determinism_hashes(seed, gen::Prop::C06, n, w))),
        ("runtime/C07", Box::new(move |w| rt::determinism_hashes(seed, gen::Prop::C07, n, w))),
        ("runtime/C11", Box::new(move |w| rt::determinism_hashes(seed, gen::Prop::C11, n, w))),
        ("lockstep/C14", Box::new(move |w| c14::determinism_hashes(seed, n, w))),
        ("links/C13", Box::new(move |w| c13::determinism_hashes(seed, n / 4, w))),
    ];
    for (name, f) in &engines {
        let a = f(1);
        let b = f(args.workers.max(2));
        let c = f(5);
        let bad: Vec<usize> = (0..a.len()).filter(|i| a[*i] != b[*i] || a[*i] != c[*i]).collect();
        if !bad.is_empty() {
            println!("DETERMINISM-FAIL engine={} runs {:?}", name, &bad[..bad.len().min(10)]);
            for i in bad.iter().take(2) {
                println!("  run {}:\n   1 worker : {}\n   {} workers: {}\n   5 workers: {}", i, a[*i], args.workers.max(2), b[*i], c[*i]);
            }
            code = 2;
        } else {
            println!("determinism engine={}: {} runs x3 (1, {} and 5 workers; different executor processes) identical; fingerprint {:016x}", name, a.len(), args.workers.max(2), rng::fnv(a.join("\n").as_bytes()));
        }
    }
    // fresh OS processes
    let here = fingerprints(seed, 300, 3);
    for w in [2usize, 9] {
        let out = std::process::Command::new(std::env::current_exe().unwrap())
            .args(["selftest", "fingerprint", "--runs", "300", "--workers", &w.to_string(), "--seed", &seed.to_string()])
            .output();
        let ok = match out {
            Ok(o) => String::from_utf8_lossy(&o.stdout).lines().any(|l| l == format!("FINGERPRINT {}", here.join(" "))),
            Err(_) => false,
        };
        if ok {
            println!("determinism across OS processes ({} workers): identical fingerprints {}", w, here.join(" "));
        } else {
            println!("DETERMINISM-FAIL across OS processes ({} workers)", w);
            code = 2;
        }
    }
    code
}
