//! World generator (swarm style: many small, diverse worlds). Everything is drawn from forked
//! streams of one seed; the executor draws nothing.

use crate::rng::Rng;
use crate::world::*;
use serde_json::{json, Value};

#[derive(Clone, Copy, Debug, PartialEq)]
pub enum Prop {
    C06,
    C07,
    C11,
    C14,
}

#[derive(Clone, Copy, Debug, PartialEq)]
enum Kind {
    /// list item {k, v, w, sub:[{k,v}]}
    Record,
    /// {k, v}
    SubRecord,
    Scalar,
    Index,
    /// a value of unknown shape (slot values, object iteration items)
    Any,
    /// an item that is itself a list of scalars (item of `ll`)
    ScalarList,
}

#[derive(Clone, Debug)]
struct ScopeVar {
    name: String,
    kind: Kind,
    /// can a model: binding be rooted here (item of a data-path list)?
    assignable: bool,
    /// item of a list that certainly has no data path (a literal list, a script module's list, a
    /// list hanging off such an item): a model: binding rooted here must come without a path
    no_path: bool,
}

#[derive(Clone, Debug)]
struct Features {
    index_reads: bool,
    obj_literals: bool,
    arr_literals: bool,
    holes: bool,
    calls: bool,
    templates: bool,
    include: bool,
    comps: bool,
    dyn_slots: bool,
    root_slots: bool,
    dup_keys: bool,
    script_lists: bool,
    model: bool,
    events: bool,
    type_flip: bool,
    for_object: bool,
    nested_for: bool,
}

struct Ctx<'a> {
    r: &'a mut Rng,
    f: Features,
    scope: Vec<ScopeVar>,
    /// inside a <template name> body: only its data fields exist
    in_template: bool,
    modules: Vec<String>,
    budget: i32,
    prop: Prop,
    used_comps: Vec<String>,
    used_index_reads: bool,
    allow_nested_template: bool,
}

const ROOT_SCALARS: &[&str] = &["a", "b", "c", "d"];

impl<'a> Ctx<'a> {
    fn scalar_leaf(&mut self) -> Expr {
        let mut pool: Vec<Expr> = vec![];
        if self.in_template {
            pool.extend([id("a"), id("q"), id("x"), member(id("y"), "z"), id("k")]);
        } else {
            for s in ROOT_SCALARS {
                pool.push(id(s));
                pool.push(id(s));
            }
            pool.extend([
                member(id("obj"), "x"),
                member(id("obj"), "x"),
                member(member(id("obj"), "y"), "z"),
                member(id("obj"), "k"),
                member(id("o2"), "p"),
                member(id("o2"), "q"),
                id("n"),
                id("s"),
                id("flag"),
                // a data field that is named like a member of Object.prototype
                id("toString"),
                member(id("list"), "length"),
                member(id("l2"), "length"),
                index(id("obj"), id("s")),
            ]);
            if self.f.index_reads {
                self.used_index_reads = true;
                pool.extend([
                    member(index(id("list"), id("n")), "v"),
                    member(index(id("list"), Expr::Num("0".into())), "v"),
                    index(id("l2"), id("n")),
                    index(id("l2"), Expr::Num("1".into())),
                ]);
            }
        }
        for sv in self.scope.clone().iter().rev() {
            match sv.kind {
                Kind::Record => {
                    for _ in 0..2 {
                        pool.push(member(id(&sv.name), "v"));
                        pool.push(member(id(&sv.name), "w"));
                    }
                    pool.push(member(id(&sv.name), "k"));
                    pool.push(member(member(id(&sv.name), "sub"), "length"));
                }
                Kind::SubRecord => {
                    pool.push(member(id(&sv.name), "v"));
                    pool.push(member(id(&sv.name), "v"));
                    pool.push(member(id(&sv.name), "k"));
                }
                Kind::Scalar | Kind::Index => {
                    pool.push(id(&sv.name));
                    pool.push(id(&sv.name));
                }
                Kind::Any => {
                    pool.push(id(&sv.name));
                    pool.push(member(id(&sv.name), "v"));
                }
                Kind::ScalarList => {
                    pool.push(member(id(&sv.name), "length"));
                    pool.push(index(id(&sv.name), Expr::Num("0".into())));
                }
            }
        }
        let i = self.r.below(pool.len());
        pool.swap_remove(i)
    }

    fn object_leaf(&mut self) -> Expr {
        if self.in_template {
            return id("y");
        }
        let mut pool = vec![id("obj"), member(id("obj"), "y"), id("o2")];
        for sv in &self.scope {
            if sv.kind == Kind::Record || sv.kind == Kind::SubRecord {
                pool.push(id(&sv.name));
            }
        }
        let i = self.r.below(pool.len());
        pool.swap_remove(i)
    }

    fn lit(&mut self) -> Expr {
        match self.r.below(12) {
            8 => Expr::Num((*self.r.pick(&["0x1f", "1e2", "2.50", "0.5", "100"])).into()),
            9 => Expr::Str((*self.r.pick(&["é", "a b", "x\\ny", "q\\u00e9", "it\\'s", "<b>", "a&b", "}}x", "{y"])).into()),
            10 => Expr::Num(format!("{}", 1000 + self.r.below(9000))),
            11 => Expr::Str(format!("s{}", self.r.below(9))),
            0 => Expr::Num("0".into()),
            1 => Expr::Num(format!("{}", self.r.below(5))),
            2 => Expr::Str("".into()),
            3 => Expr::Str(format!("s{}", self.r.below(9))),
            4 => Expr::Bool(self.r.chance(0.5)),
            5 => Expr::Null,
            6 => Expr::Undef,
            _ => Expr::Num("1.5".into()),
        }
    }

    fn expr(&mut self, depth: usize) -> Expr {
        if depth >= 3 || self.r.chance(0.42) {
            return if self.r.chance(0.9) { self.scalar_leaf() } else { self.lit() };
        }
        let k = self.r.below(16);
        match k {
            0 | 1 => {
                let op = *self.r.pick(&["+", "+", "+", "-", "-", "*", "/", "%", "<<", ">>", ">>>", "&", "|", "^"]);
                bin(op, self.expr(depth + 1), self.expr(depth + 1))
            }
            2 => Expr::Cond(Box::new(self.expr(depth + 1)), Box::new(self.expr(depth + 1)), Box::new(self.expr(depth + 1))),
            3 => bin(*self.r.pick(&["||", "&&", "??"]), self.expr(depth + 1), self.expr(depth + 1)),
            4 => bin(*self.r.pick(&["===", "!==", "<", ">=", "==", "!=", "<=", ">"]), self.expr(depth + 1), self.expr(depth + 1)),
            5 => Expr::Un((*self.r.pick(&["!", "-", "typeof", "!", "~", "+", "void"])).to_string(), Box::new(self.expr(depth + 1))),
            6 | 7 if self.f.arr_literals => {
                let n = self.r.range(1, 3);
                let mut items = vec![];
                for _ in 0..n {
                    if self.f.holes && self.r.chance(0.25) {
                        items.push(ArrItem::Hole);
                    }
                    if self.r.chance(0.2) && !self.in_template {
                        items.push(ArrItem::Spread(id(*self.r.pick(&["l2", "list"]))));
                    } else {
                        items.push(ArrItem::Item(self.expr(depth + 1)));
                    }
                }
                let arr = Expr::Arr(items);
                match self.r.below(3) {
                    0 => member(arr, "length"),
                    1 => index(arr, Expr::Num(format!("{}", self.r.below(3)))),
                    _ => index(arr, if self.in_template { id("k") } else { id("n") }),
                }
            }
            8 | 9 if self.f.obj_literals => {
                let mut items = vec![];
                let keys = ["p", "q", "v"];
                let n = self.r.range(1, 3);
                for i in 0..n {
                    match self.r.below(5) {
                        0 if !self.in_template => items.push(ObjItem::Short((*self.r.pick(ROOT_SCALARS)).to_string())),
                        1 => {
                            let o = self.object_leaf();
                            items.push(ObjItem::Spread(o))
                        }
                        _ => items.push(ObjItem::Named(keys[i % 3].to_string(), self.expr(depth + 1))),
                    }
                }
                let f = *self.r.pick(&["p", "q", "v", "x", "a", "z"]);
                member(Expr::Obj(items), f)
            }
            10 if self.f.calls && !self.modules.is_empty() => {
                let m = self.r.pick(&self.modules).clone();
                if self.r.chance(0.12) && !self.in_template {
                    // the callee itself is selected by data
                    let arg = self.expr(depth + 1);
                    return Expr::Call(Box::new(Expr::Call(Box::new(member(id(&m), "pickf")), vec![id("s")])), vec![arg]);
                }
                if self.r.chance(0.1) && !self.in_template {
                    // the result is an object that is descended into
                    let o = self.object_leaf();
                    let a = self.scalar_leaf();
                    return member(member(Expr::Call(Box::new(member(id(&m), "wrap")), vec![a, o]), "q"), *self.r.pick(&["x", "k", "p"]));
                }
                if self.r.chance(0.45) {
                    // the value depends on everything below an object: a whole-object dependency
                    let o = if self.r.chance(0.25) && !self.in_template { id(*self.r.pick(&["list", "l2"])) } else { self.object_leaf() };
                    Expr::Call(Box::new(member(id(&m), "j")), vec![o])
                } else {
                    Expr::Call(Box::new(member(id(&m), "f")), vec![self.expr(depth + 1)])
                }
            }
            11 => {
                // string concatenation with a literal on one side
                if self.r.chance(0.5) {
                    bin("+", Expr::Str(format!("p{}", self.r.below(5))), self.expr(depth + 1))
                } else {
                    bin("+", self.expr(depth + 1), Expr::Str(format!("q{}", self.r.below(5))))
                }
            }
            13 | 14 => self.arith(0),
            15 => {
                // dynamic member access whose object has no data path of its own
                let mut idxs: Vec<Expr> = if self.in_template { vec![id("k")] } else { vec![id("n"), id("n"), member(id("l2"), "length")] };
                for sv in &self.scope {
                    if sv.kind == Kind::Index {
                        idxs.push(id(&sv.name));
                        idxs.push(id(&sv.name));
                    }
                }
                let i = self.r.below(idxs.len());
                let ix = idxs.swap_remove(i);
                let s_leaf = if self.in_template { id("x") } else { id("s") };
                let pick = self.r.below(if self.in_template { 3 } else { 7 });
                if pick >= 3 {
                    // l2 is read by position: splices must re-mark shifted positions
                    self.used_index_reads = true;
                }
                let obj = match pick {
                    0 => Expr::Str("abcdef".into()),
                    1 => bin("+", s_leaf, Expr::Str("abc".into())),
                    2 => bin("+", Expr::Str("uvw".into()), self.scalar_leaf()),
                    3 => bin(*self.r.pick(&["||", "??"]), id("l2"), id("list")),
                    4 => bin("&&", id("flag"), id("l2")),
                    5 => Expr::Cond(Box::new(id("flag")), Box::new(id("l2")), Box::new(Expr::Str("wxyz".into()))),
                    _ => {
                        if self.f.calls && !self.modules.is_empty() {
                            let m = self.r.pick(&self.modules).clone();
                            Expr::Call(Box::new(member(id(&m), "f")), vec![s_leaf])
                        } else {
                            bin("||", id("l2"), Expr::Str("zyx".into()))
                        }
                    }
                };
                index(obj, ix)
            }
            12 => {
                let o = self.object_leaf();
                let key = if self.r.chance(0.5) && !self.in_template { id("s") } else { Expr::Str((*self.r.pick(&["x", "k", "v", "z", "p"])).into()) };
                index(o, key)
            }
            _ => self.scalar_leaf(),
        }
    }

    /// arithmetic over operands that are numbers at run time, so that grouping matters
    fn arith(&mut self, depth: usize) -> Expr {
        if depth >= 2 || self.r.chance(0.35) {
            let mut pool: Vec<Expr> = vec![Expr::Num(format!("{}", 2 + self.r.below(8))), Expr::Num(format!("{}", 2 + self.r.below(8)))];
            if self.in_template {
                pool.push(id("k"));
            } else {
                pool.extend([id("n"), id("n"), member(id("list"), "length"), member(id("l2"), "length")]);
            }
            for sv in &self.scope {
                if sv.kind == Kind::Index {
                    pool.push(id(&sv.name));
                }
            }
            let i = self.r.below(pool.len());
            return pool.swap_remove(i);
        }
        let op = *self.r.pick(&["*", "*", "/", "%", "+", "-", "<<", "&"]);
        bin(op, self.arith(depth + 1), self.arith(depth + 1))
    }

    fn top_expr(&mut self) -> Expr {
        self.expr(0)
    }

    /// expression + whether a model path is expected for it
    fn model_expr(&mut self) -> (Expr, bool) {
        let mut assignable: Vec<Expr> = vec![];
        if !self.in_template {
            assignable.extend([id("a"), id("b"), member(id("obj"), "x"), member(member(id("obj"), "y"), "z"), member(id("o2"), "p"), index(id("obj"), id("s"))]);
            if self.f.index_reads {
                self.used_index_reads = true;
                assignable.push(member(index(id("list"), id("n")), "v"));
                assignable.push(member(index(id("list"), Expr::Num("0".into())), "v"));
                assignable.push(index(id("l2"), id("n")));
            }
        }
        for sv in &self.scope {
            if !sv.assignable {
                continue;
            }
            match sv.kind {
                Kind::Record => {
                    for _ in 0..3 {
                        assignable.push(member(id(&sv.name), "v"));
                    }
                    assignable.push(member(id(&sv.name), "w"));
                }
                Kind::SubRecord => {
                    for _ in 0..3 {
                        assignable.push(member(id(&sv.name), "v"));
                    }
                }
                Kind::Scalar => {
                    for _ in 0..3 {
                        assignable.push(id(&sv.name));
                    }
                }
                Kind::ScalarList => {
                    assignable.push(index(id(&sv.name), Expr::Num("0".into())));
                }
                Kind::Any => {
                    // item of an object iterated by key: the path ends in the field name
                    for _ in 0..2 {
                        assignable.push(id(&sv.name));
                    }
                }
                _ => {}
            }
        }
        let frozen: Vec<Expr> = self
            .scope
            .iter()
            .filter(|sv| sv.no_path && matches!(sv.kind, Kind::Record | Kind::SubRecord))
            .map(|sv| member(id(&sv.name), "v"))
            .collect();
        if !frozen.is_empty() && self.r.chance(0.4) {
            // an item of a list without a data path (a literal list, a script module's list)
            return (self.r.pick(&frozen).clone(), false);
        }
        if assignable.is_empty() || self.r.chance(0.15) {
            // not assignable: arithmetic, literal, call, loop index
            let mut e = match self.r.below(4) {
                0 => bin("+", self.scalar_leaf(), Expr::Num("1".into())),
                1 => self.lit(),
                2 if !self.modules.is_empty() => {
                    let m = self.r.pick(&self.modules).clone();
                    Expr::Call(Box::new(member(id(&m), "f")), vec![self.scalar_leaf()])
                }
                _ => Expr::Un("!".into(), Box::new(self.scalar_leaf())),
            };
            if let Some(ix) = self.scope.iter().rev().find(|s| s.kind == Kind::Index) {
                if self.r.chance(0.3) {
                    e = id(&ix.name);
                }
            }
            return (e, false);
        }
        let i = self.r.below(assignable.len());
        let a = assignable.swap_remove(i);
        if self.r.chance(0.12) && !assignable.is_empty() {
            let j = self.r.below(assignable.len());
            let b = assignable.swap_remove(j);
            let c = if self.in_template { id("a") } else { id("flag") };
            return (Expr::Cond(Box::new(c), Box::new(a), Box::new(b)), true);
        }
        if self.r.chance(0.12) {
            // one branch is assignable, the other is shaped like a path but is not (a script
            // member, a loop index, an item of a literal list): a path may only come with the former
            let mut other: Vec<Expr> = vec![index(Expr::Arr(vec![ArrItem::Item(id("a")), ArrItem::Item(id("b"))]), Expr::Num("0".into()))];
            if let Some(m) = self.modules.first() {
                other.push(member(id(m), "k"));
                other.push(member(member(id(m), "o"), "g"));
            }
            if let Some(ix) = self.scope.iter().rev().find(|s| s.kind == Kind::Index) {
                other.push(id(&ix.name));
                other.push(id(&ix.name));
            }
            let j = self.r.below(other.len());
            let b = other.swap_remove(j);
            let c = if self.in_template { id("a") } else { id(*self.r.pick(&["flag", "flag", "a", "n"])) };
            let e = if self.r.chance(0.5) { Expr::Cond(Box::new(c), Box::new(a), Box::new(b)) } else { Expr::Cond(Box::new(c), Box::new(b), Box::new(a)) };
            return (e, true);
        }
        (a, true)
    }

    fn text_parts(&mut self) -> Vec<TextPart> {
        let mut parts = vec![];
        let n = self.r.range(1, 3);
        for i in 0..n {
            if self.r.chance(0.35) {
                if self.prop == Prop::C14 && self.r.chance(0.3) {
                    // entity spellings and brace look-alikes (source text, decoded by the parser)
                    parts.push(TextPart::Lit((*self.r.pick(&["&lt;", "&amp;", "a &gt; b", "&#123;&#123; x }}", "&#x7b;", " { ", "} ", "&#123;&#123;&#123;", "&#123;&#123;", "x&#123;&#123;&#123;&#123;", "{ { ", "&#123;", "&quot;q&quot;", "&nbsp;", "&#39;", "x&amp;amp;y", "\n  ", "\t"])).to_string()));
                } else {
                    parts.push(TextPart::Lit(format!("t{}", self.r.below(20))));
                }
            }
            parts.push(TextPart::Bind(self.top_expr()));
            if i + 1 < n {
                parts.push(TextPart::Lit((*self.r.pick(&["-", ":", " ", "/"])).to_string()));
            }
        }
        parts
    }

    fn attr_val(&mut self) -> AttrVal {
        match self.r.below(10) {
            0 => AttrVal::Static(format!("s{}", self.r.below(9))),
            1 | 2 => AttrVal::Mixed(self.text_parts()),
            _ => AttrVal::Bind(self.top_expr()),
        }
    }

    fn native_attrs(&mut self, tag: &str) -> Vec<Attr> {
        let mut attrs = vec![];
        let n = self.r.below(4);
        let mut used: Vec<String> = vec![];
        for _ in 0..n {
            let fam = self.r.below(12);
            let (name, val) = match fam {
                0 => ("class".to_string(), if self.r.chance(0.5) { AttrVal::Mixed(vec![TextPart::Lit("k ".into()), TextPart::Bind(self.top_expr())]) } else { self.attr_val() }),
                1 => ("style".to_string(), AttrVal::Mixed(vec![TextPart::Lit("color: ".into()), TextPart::Bind(self.top_expr())])),
                2 => ("id".to_string(), self.attr_val()),
                3 => (format!("data-{}", self.r.pick(&["x", "y-z"])), self.attr_val()),
                4 => (format!("data:{}", self.r.pick(&["dx", "dY"])), self.attr_val()),
                5 => (format!("mark:{}", self.r.pick(&["m", "n"])), self.attr_val()),
                6 => ("hidden".to_string(), if self.r.chance(0.3) { AttrVal::None } else { AttrVal::Bind(self.top_expr()) }),
                7 if self.f.events => {
                    let prefix = *self.r.pick(&["bind:", "catch:", "mut-bind:", "capture-bind:", "bind", "capture-catch:", "capture-mut-bind:", "catch"]);
                    let ev = *self.r.pick(&["tap", "custom"]);
                    let val = match self.r.below(4) {
                        0 => AttrVal::Static((*self.r.pick(&["h1", "h2"])).to_string()),
                        1 if !self.modules.is_empty() && !self.in_template => {
                            let m = self.r.pick(&self.modules).clone();
                            let m2 = self.r.pick(&self.modules).clone();
                            let one = if self.r.chance(0.7) { member(id(&m), "f") } else { member(member(id(&m), "o"), "g") };
                            if self.r.chance(0.45) {
                                // the handler (and with it the script path) is selected by data
                                let other = match self.r.below(3) {
                                    0 => member(id(&m2), "j"),
                                    1 => member(member(id(&m2), "o"), "g"),
                                    _ => member(id(&m2), "f"),
                                };
                                let c = if self.r.chance(0.6) { id("flag") } else { self.scalar_leaf() };
                                if self.r.chance(0.25) {
                                    // the module is selected by data, the member is fixed
                                    AttrVal::Bind(member(Expr::Cond(Box::new(c), Box::new(id(&m)), Box::new(id(&m2))), "f"))
                                } else {
                                    AttrVal::Bind(Expr::Cond(Box::new(c), Box::new(one), Box::new(other)))
                                }
                            } else {
                                AttrVal::Bind(one)
                            }
                        }
                        2 if !self.in_template => AttrVal::Bind(id("s")),
                        3 if self.f.script_lists && self.scope.iter().any(|sv| sv.no_path && sv.kind == Kind::Record) => {
                            // a handler stored in an item of a script module's list
                            let sv = self.scope.iter().rev().find(|sv| sv.no_path && sv.kind == Kind::Record).unwrap().name.clone();
                            AttrVal::Bind(member(id(&sv), "h"))
                        }
                        _ => AttrVal::Static("h1".into()),
                    };
                    if self.r.chance(0.3) {
                        // a second binding of another kind on the same event: the order counts
                        let p2 = *self.r.pick(&["bind:", "catch:", "mut-bind:", "capture-bind:", "capture-catch:"]);
                        let n2 = format!("{}{}", p2, ev);
                        if n2 != format!("{}{}", prefix, ev) && !used.contains(&n2) {
                            used.push(n2.clone());
                            attrs.push(Attr { name: n2, val: AttrVal::Static((*self.r.pick(&["h2", "h1"])).to_string()) });
                        }
                    }
                    (format!("{}{}", prefix, ev), val)
                }
                8 => (format!("attr-{}", self.r.pick(&["a", "b"])), self.attr_val()),
                9 => ("extra-attr:e".to_string(), AttrVal::Static("ev".into())),
                _ => ((*self.r.pick(&["a", "b", "title"])).to_string(), self.attr_val()),
            };
            if used.contains(&name) {
                continue;
            }
            used.push(name.clone());
            attrs.push(Attr { name, val });
        }
        if tag == "input" && self.f.model {
            let (e, ok) = self.model_expr();
            attrs.push(Attr { name: if ok { "model:value".into() } else { "model:nv".into() }, val: AttrVal::Bind(e) });
        }
        attrs
    }

    fn list_expr(&mut self) -> (Expr, Kind, bool, Option<&'static str>) {
        // (expression, item kind, items assignable, key field)
        let mut pool: Vec<(Expr, Kind, bool, Option<&'static str>)> = vec![];
        if self.in_template {
            pool.push((id("list"), Kind::Record, false, Some("k")));
            pool.push((Expr::Arr(vec![ArrItem::Item(id("a")), ArrItem::Item(id("q"))]), Kind::Scalar, false, None));
        } else {
            for _ in 0..4 {
                pool.push((id("list"), Kind::Record, true, Some("k")));
            }
            for _ in 0..2 {
                pool.push((id("l2"), Kind::Scalar, true, Some("*this")));
            }
            if self.f.for_object {
                pool.push((id("om"), Kind::Record, true, Some("k")));
                pool.push((id("om"), Kind::Record, true, None));
                pool.push((id("obj"), Kind::Any, true, None));
                pool.push((id("n"), Kind::Scalar, false, None));
                pool.push((id("s"), Kind::Scalar, false, None));
            }
            if self.f.arr_literals {
                pool.push((Expr::Arr(vec![ArrItem::Item(id("a")), ArrItem::Item(member(id("obj"), "x")), ArrItem::Spread(id("l2"))]), Kind::Scalar, false, None));
                pool.push((Expr::Cond(Box::new(id("flag")), Box::new(id("list")), Box::new(Expr::Arr(vec![]))), Kind::Record, true, Some("k")));
                // one branch has a path, the other (a literal list) has none
                pool.push((Expr::Cond(Box::new(id("flag")), Box::new(id("l2")), Box::new(Expr::Arr(vec![ArrItem::Item(id("a")), ArrItem::Item(id("b"))]))), Kind::Scalar, true, Some("*this")));
            }
            if self.f.index_reads {
                pool.push((member(index(id("list"), id("n")), "sub"), Kind::SubRecord, true, Some("k")));
                // a member of a conditional: the path is the taken branch's path plus the member
                pool.push((member(Expr::Cond(Box::new(id("flag")), Box::new(index(id("list"), Expr::Num("0".into()))), Box::new(index(id("list"), id("n")))), "sub"), Kind::SubRecord, true, Some("k")));
            }
            if self.f.nested_for {
                pool.push((id("ll"), Kind::ScalarList, true, None));
            }
            if self.f.calls && !self.modules.is_empty() {
                // lists without a path of their own whose items still move
                let m = self.modules[0].clone();
                pool.push((Expr::Call(Box::new(member(id(&m), "rev")), vec![id("list")]), Kind::Record, false, Some("k")));
                pool.push((bin("||", id("list"), Expr::Arr(vec![])), Kind::Record, false, Some("k")));
                pool.push((Expr::Call(Box::new(member(id(&m), "rev")), vec![id("l2")]), Kind::Scalar, false, Some("*this")));
            }
            if self.f.script_lists && !self.modules.is_empty() {
                // a list that lives in a script module: items have a script path, never a data path
                let m = self.r.pick(&self.modules).clone();
                pool.push((member(id(&m), "rows"), Kind::Record, false, Some("k")));
                pool.push((member(id(&m), "rows"), Kind::Record, false, Some("k")));
                // one branch is a data list, the other a script list: which kind of path an item
                // would have is not decidable at compile time, so the items receive none
                {
                    pool.push((Expr::Cond(Box::new(id("flag")), Box::new(id("list")), Box::new(member(id(&m), "rows"))), Kind::Record, false, Some("k")));
                    pool.push((Expr::Cond(Box::new(id("flag")), Box::new(member(id(&m), "rows")), Box::new(id("list"))), Kind::Record, false, Some("k")));
                }
            }
        }
        if self.f.nested_for {
            for sv in &self.scope {
                if sv.kind == Kind::ScalarList {
                    // the inner list is the bare outer item
                    for _ in 0..4 {
                        pool.push((id(&sv.name), Kind::Scalar, sv.assignable, Some("*this")));
                    }
                    if !self.in_template {
                        pool.push((Expr::Cond(Box::new(id("flag")), Box::new(id(&sv.name)), Box::new(id("l2"))), Kind::Scalar, sv.assignable, None));
                    }
                }
                if sv.kind == Kind::Record {
                    for _ in 0..5 {
                        pool.push((member(id(&sv.name), "sub"), Kind::SubRecord, sv.assignable, Some("k")));
                    }
                }
            }
        }
        let i = self.r.below(pool.len());
        let x = pool.swap_remove(i);
        if let Expr::Member(b, _) = &x.0 {
            if matches!(**b, Expr::Index(..) | Expr::Cond(..)) {
                self.used_index_reads = true;
            }
        }
        x
    }

    fn nodes(&mut self, depth: usize) -> Vec<Node> {
        let mut out = vec![];
        let n = self.r.range(1, 3);
        for _ in 0..n {
            if self.budget <= 0 {
                break;
            }
            self.budget -= 1;
            if self.prop == Prop::C14 && self.r.chance(0.06) {
                // text nodes that only a comment keeps apart
                let first = (*self.r.pick(&["a{", "{", "x }", "b&#123;", "{{", "t"])).to_string();
                out.push(Node::Text(vec![TextPart::Lit(first)]));
                out.push(Node::Comment(" sep ".into()));
                if self.r.chance(0.5) {
                    out.push(Node::Text(vec![TextPart::Lit((*self.r.pick(&["{ y }}", "{z", "}} w", "u"])).to_string())]));
                } else {
                    out.push(Node::Text(self.text_parts()));
                }
                continue;
            }
            out.push(self.node(depth));
        }
        out
    }

    fn node(&mut self, depth: usize) -> Node {
        let deep = depth >= 3;
        let k = self.r.below(if deep { 6 } else { 20 });
        match k {
            0 | 1 => Node::Text(self.text_parts()),
            2 | 3 => {
                let tag = *self.r.pick(&["view", "text", "view"]);
                let attrs = self.native_attrs(tag);
                let children = if deep || self.r.chance(0.4) { vec![Node::Text(self.text_parts())] } else { self.nodes(depth + 1) };
                Node::El { tag: tag.into(), attrs, children }
            }
            4 | 5 if self.f.model => {
                let attrs = self.native_attrs("input");
                Node::El { tag: "input".into(), attrs, children: vec![] }
            }
            6 | 7 | 8 => {
                let nb = self.r.range(1, 3);
                let mut branches = vec![];
                for _ in 0..nb {
                    let c = self.top_expr();
                    let ch = self.nodes(depth + 1);
                    branches.push((c, ch));
                }
                let else_ = if self.r.chance(0.5) { Some(self.nodes(depth + 1)) } else { None };
                let on = if self.r.chance(0.4) { Some("view".to_string()) } else { None };
                Node::If { branches, else_, on }
            }
            9 | 10 | 11 | 12 => {
                let (list, kind, assignable, keyf) = self.list_expr();
                let key = match self.r.below(3) {
                    0 => None,
                    _ => keyf.map(String::from),
                };
                let no_path = {
                    // the root of the member chain decides
                    let mut root = &list;
                    while let Expr::Member(b, _) = root {
                        root = b;
                    }
                    match root {
                        Expr::Arr(_) => true,
                        Expr::Id(n) => self.modules.iter().any(|m| m == n) || self.scope.iter().any(|sv| &sv.name == n && sv.no_path),
                        // a data list in one branch and a script module's list in the other
                        Expr::Cond(_, a, b) => [a, b].iter().any(|e| matches!(&***e, Expr::Member(r, _) if matches!(&**r, Expr::Id(n) if self.modules.iter().any(|m| m == n)))),
                        _ => false,
                    }
                };
                let nested = self.scope.iter().any(|s| s.name == "item");
                let rename = nested || self.r.chance(0.2);
                let (item, idx) = if !nested && self.r.chance(0.08) {
                    // legal and nasty: the default names, exchanged
                    ("index".to_string(), "item".to_string())
                } else if rename {
                    let d = self.scope.len();
                    (format!("it{}", d), format!("ix{}", d))
                } else {
                    ("item".to_string(), "index".to_string())
                };
                self.scope.push(ScopeVar { name: item.clone(), kind, assignable, no_path });
                self.scope.push(ScopeVar { name: idx.clone(), kind: Kind::Index, assignable: false, no_path: false });
                let children = self.nodes(depth + 1);
                self.scope.pop();
                self.scope.pop();
                let on = if self.r.chance(0.5) { Some("view".to_string()) } else { None };
                let explicit = item != "item" || idx != "index";
                // (declaring only one of the two is covered by the C14 grid: here it would turn the
                // references the children already make into reads of a data field)
                let only_one = false;
                let _ = rename;
                Node::For {
                    list,
                    key,
                    item: if explicit { Some(item) } else { None },
                    index: if explicit && !only_one { Some(idx) } else { None },
                    children,
                    on,
                }
            }
            13 => Node::Block(self.nodes(depth + 1)),
            14 if self.f.templates && !self.in_template && self.scope.iter().any(|s| matches!(s.kind, Kind::Record | Kind::SubRecord | Kind::Scalar)) && self.r.chance(0.6) => {
                // a template called from inside a loop with data made of loop variables only
                let item = self.scope.iter().rev().find(|s| matches!(s.kind, Kind::Record | Kind::SubRecord | Kind::Scalar)).cloned().unwrap();
                let idx = self.scope.iter().rev().find(|s| s.kind == Kind::Index).map(|s| s.name.clone());
                let mut items = vec![];
                match item.kind {
                    Kind::Record => {
                        items.push(ObjItem::Named("q".into(), member(id(&item.name), "v")));
                        items.push(ObjItem::Named("x".into(), member(id(&item.name), "w")));
                        if self.r.chance(0.5) {
                            items.push(ObjItem::Named("list".into(), member(id(&item.name), "sub")));
                        }
                    }
                    Kind::SubRecord => {
                        items.push(ObjItem::Named("q".into(), member(id(&item.name), "v")));
                        items.push(ObjItem::Spread(id(&item.name)));
                    }
                    _ => items.push(ObjItem::Named("q".into(), id(&item.name))),
                }
                if let Some(ix) = idx {
                    items.push(ObjItem::Named("k".into(), id(&ix)));
                }
                let target = if self.r.chance(0.7) { AttrVal::Static((*self.r.pick(&["t1", "t2"])).into()) } else { AttrVal::Bind(Expr::Cond(Box::new(member(id(&item.name), "v")), Box::new(Expr::Str("t1".into())), Box::new(Expr::Str("t2".into())))) };
                Node::TemplateIs { target, data: Some(Expr::Obj(items)) }
            }
            14 if self.in_template && self.f.templates && self.allow_nested_template => {
                // t2 calls t1 (never the other way round): a second template level
                let mut items = vec![ObjItem::Named("q".into(), self.scalar_leaf()), ObjItem::Short("a".into())];
                if self.r.chance(0.5) {
                    items.push(ObjItem::Spread(id("y")));
                }
                if self.r.chance(0.5) {
                    items.push(ObjItem::Short("list".into()));
                }
                Node::TemplateIs { target: AttrVal::Static("t1".into()), data: Some(Expr::Obj(items)) }
            }
            14 if self.f.templates && !self.in_template => {
                let target = match self.r.below(4) {
                    0 => AttrVal::Bind(id("s")),
                    1 => AttrVal::Bind(Expr::Cond(Box::new(id("flag")), Box::new(Expr::Str("t1".into())), Box::new(Expr::Str("t2".into())))),
                    2 => AttrVal::Static("t2".into()),
                    _ => AttrVal::Static("t1".into()),
                };
                let mut items = vec![];
                if self.r.chance(0.6) {
                    items.push(ObjItem::Short("a".into()));
                }
                items.push(ObjItem::Named("q".into(), self.top_expr()));
                if self.r.chance(0.6) {
                    items.push(ObjItem::Spread(id("obj")));
                }
                if self.r.chance(0.4) {
                    items.push(ObjItem::Short("list".into()));
                }
                if self.r.chance(0.3) {
                    items.push(ObjItem::Named("k".into(), self.scalar_leaf()));
                }
                Node::TemplateIs { target, data: Some(Expr::Obj(items)) }
            }
            15 if self.f.include && !self.in_template && self.scope.is_empty() => Node::Include("/inc/part".into()),
            16 | 17 if self.f.comps && !self.in_template => self.comp(depth),
            18 => Node::Comment(format!(" c{} ", self.r.below(9))),
            19 if self.f.root_slots => {
                // the root component uses dynamic slots: slot values are observable on the slot node
                let name = if self.r.chance(0.25) { AttrVal::Static((*self.r.pick(&["a", "b"])).into()) } else { AttrVal::None };
                let n = self.r.range(1, 2);
                let mut values = vec![];
                for i in 0..n {
                    let v = if !self.modules.is_empty() && !self.in_template && self.r.chance(0.2) {
                        // a slot value that is a script function carries a general l-value path
                        let m = self.r.pick(&self.modules).clone();
                        if self.r.chance(0.5) { member(id(&m), "f") } else { Expr::Cond(Box::new(id("flag")), Box::new(member(id(&m), "f")), Box::new(member(member(id(&m), "o"), "g"))) }
                    } else {
                        self.top_expr()
                    };
                    values.push(Attr { name: ["sv", "si"][i % 2].into(), val: AttrVal::Bind(v) });
                }
                // common attributes of the slot element itself
                if self.r.chance(0.25) {
                    values.push(Attr { name: "id".into(), val: AttrVal::Bind(self.top_expr()) });
                }
                if self.r.chance(0.15) {
                    values.push(Attr { name: "data:k".into(), val: AttrVal::Bind(self.top_expr()) });
                }
                Node::Slot { name, values }
            }
            _ => Node::Text(self.text_parts()),
        }
    }

    fn comp(&mut self, depth: usize) -> Node {
        let mut kinds = vec!["plain", "plain", "multi", "multi2", "mchild", "styled", "sslots"];
        if self.f.model && !self.in_template {
            kinds.push("mnest");
        }
        if self.f.model && !self.in_template && (self.prop == Prop::C11 || self.r.chance(0.3)) {
            kinds.push("mobs");
        }
        if self.f.dyn_slots {
            kinds.extend(["dyn", "dyn", "dynnk", "dynt", "dynn", "dynself", "dynself"]);
        }
        let kind = *self.r.pick(&kinds);
        if !self.used_comps.iter().any(|c| c == kind) {
            self.used_comps.push(kind.to_string());
        }
        let mut attrs = vec![];
        match kind {
            "plain" => {
                if self.r.chance(0.3) {
                    let o = self.object_leaf();
                    attrs.push(Attr { name: "p".into(), val: AttrVal::Bind(o) });
                } else {
                    attrs.push(Attr { name: "p".into(), val: self.attr_val() });
                }
                if self.r.chance(0.5) {
                    let v = if self.r.chance(0.25) && !self.in_template { id(*self.r.pick(&["list", "l2"])) } else { self.top_expr() };
                    attrs.push(Attr { name: "q".into(), val: AttrVal::Bind(v) });
                }
                if self.r.chance(0.2) {
                    attrs.push(Attr { name: "id".into(), val: self.attr_val() });
                }
                if !self.modules.is_empty() && self.r.chance(0.3) {
                    // a change: listener from a script module (carries a general l-value path)
                    let m = self.r.pick(&self.modules).clone();
                    let f = if self.r.chance(0.6) { member(id(&m), "f") } else { member(member(id(&m), "o"), "g") };
                    attrs.push(Attr { name: (*self.r.pick(&["change:p", "change:q"])).into(), val: AttrVal::Bind(f) });
                }
                if self.f.events && self.r.chance(0.2) {
                    attrs.push(Attr { name: "bind:custom".into(), val: AttrVal::Static("h2".into()) });
                }
                if self.r.chance(0.15) {
                    attrs.push(Attr { name: "mark:cm".into(), val: self.attr_val() });
                }
                if self.r.chance(0.2) {
                    // properties whose names look like legacy event bindings
                    attrs.push(Attr { name: (*self.r.pick(&["online", "bind-label"])).into(), val: AttrVal::Bind(self.top_expr()) });
                }
                if self.r.chance(0.1) {
                    attrs.push(Attr { name: (*self.r.pick(&["worklet:wk", "worklet:on-move"])).into(), val: AttrVal::Static((*self.r.pick(&["w1", "w2"])).into()) });
                }
                let children = if self.r.chance(0.7) { self.nodes(depth + 1) } else { vec![] };
                Node::El { tag: "plain".into(), attrs, children }
            }
            "multi" | "multi2" => {
                attrs.push(Attr { name: "p".into(), val: AttrVal::Bind(self.top_expr()) });
                let mut children = vec![];
                let n = self.r.range(1, 3);
                for _ in 0..n {
                    let slot = match self.r.below(5) {
                        0 => AttrVal::Static("a".into()),
                        1 => AttrVal::Static("b".into()),
                        2 if self.r.chance(0.35) => AttrVal::Bind(if self.r.chance(0.5) {
                            // a slot name that becomes undefined / null / a number
                            Expr::Cond(Box::new(id("flag")), Box::new(Expr::Str("a".into())), Box::new(member(id("obj"), "nope")))
                        } else {
                            member(id("obj"), "k")
                        }),
                        2 => AttrVal::Bind(id("s")),
                        // (forms that hoist a temporary)
                        3 => AttrVal::Bind(match self.r.below(3) {
                            0 => Expr::Cond(Box::new(id("flag")), Box::new(Expr::Str("a".into())), Box::new(Expr::Str("b".into()))),
                            1 => Expr::Cond(Box::new(id("a")), Box::new(id("s")), Box::new(Expr::Str("a".into()))),
                            _ => Expr::Cond(Box::new(bin("%", id("n"), Expr::Num("2".into()))), Box::new(Expr::Str("a".into())), Box::new(Expr::Str("b".into()))),
                        }),
                        _ => AttrVal::None,
                    };
                    let mut a = vec![];
                    if slot != AttrVal::None {
                        a.push(Attr { name: "slot".into(), val: slot });
                    }
                    if self.r.chance(0.12) {
                        // a slot of the host forwarded into a slot of the child
                        children.push(Node::Slot { name: if self.r.chance(0.5) { AttrVal::Static("q".into()) } else { AttrVal::None }, values: a });
                        continue;
                    }
                    // sometimes the slotted content is a virtual node
                    let tag = if self.r.chance(0.3) { "block" } else { "view" };
                    children.push(Node::El { tag: tag.into(), attrs: a, children: vec![Node::Text(self.text_parts())] });
                }
                Node::El { tag: kind.into(), attrs, children }
            }
            "styled" => {
                // a component that declares `style` (and gets it as a property, not as a style)
                attrs.push(Attr { name: "style".into(), val: if self.r.chance(0.5) { AttrVal::Bind(self.top_expr()) } else { AttrVal::Mixed(vec![TextPart::Lit("color: ".into()), TextPart::Bind(self.top_expr())]) } });
                if self.r.chance(0.4) {
                    attrs.push(Attr { name: "p".into(), val: AttrVal::Bind(self.top_expr()) });
                }
                Node::El { tag: "styled".into(), attrs, children: vec![] }
            }
            "mnest" => {
                // a child that writes to MEMBERS of a model-bound object property
                let o = if self.r.chance(0.7) { id("obj") } else { self.object_leaf() };
                attrs.push(Attr { name: "model:p".into(), val: AttrVal::Bind(o) });
                Node::El { tag: "mnest".into(), attrs, children: vec![] }
            }
            "sslots" => {
                // a single-slot child with one <slot> per item of a keyed list: the first slot of
                // the tree is the one in use, whichever item it belongs to after a re-order
                let l = id("list");
                attrs.push(Attr { name: "items".into(), val: AttrVal::Bind(l) });
                let children = vec![Node::Text(self.text_parts()), Node::El { tag: "view".into(), attrs: vec![], children: vec![Node::Text(self.text_parts())] }];
                Node::El { tag: "sslots".into(), attrs, children }
            }
            "mobs" => {
                // a child whose data observer clamps the model-bound `val` to `max`: a host update
                // makes the child write the property again, and that write must reach the host
                let v = *self.r.pick(&["a", "b", "c", "d"]);
                let m = *self.r.pick(&["a", "b", "c", "d", "n"]);
                attrs.push(Attr { name: "model:val".into(), val: AttrVal::Bind(id(v)) });
                attrs.push(Attr { name: "max".into(), val: AttrVal::Bind(if m == v { Expr::Num("150".into()) } else { id(m) }) });
                Node::El { tag: "mobs".into(), attrs, children: vec![] }
            }
            "mchild" => {
                let (e, ok) = self.model_expr();
                attrs.push(Attr { name: if ok { "model:val".into() } else { "model:nval".into() }, val: AttrVal::Bind(e) });
                Node::El { tag: "mchild".into(), attrs, children: vec![] }
            }
            "dynself" => {
                // dynamic-slots child whose slot values come from its OWN state
                attrs.push(Attr { name: "p".into(), val: AttrVal::Bind(self.top_expr()) });
                self.scope.push(ScopeVar { name: "sv".into(), kind: Kind::Record, assignable: false, no_path: true });
                self.scope.push(ScopeVar { name: "si".into(), kind: Kind::Index, assignable: false, no_path: false });
                let mut inner = vec![Node::Text(self.text_parts())];
                inner.push(Node::El { tag: "text".into(), attrs: vec![], children: vec![Node::Text(vec![TextPart::Bind(member(id("sv"), "v"))])] });
                if self.r.chance(0.6) {
                    // a loop over a slot value
                    let key = if self.r.chance(0.5) { Some("k".to_string()) } else { None };
                    let d = self.scope.len();
                    let (it, ix) = (format!("it{}", d), format!("ix{}", d));
                    self.scope.push(ScopeVar { name: it.clone(), kind: Kind::SubRecord, assignable: false, no_path: true });
                    self.scope.push(ScopeVar { name: ix.clone(), kind: Kind::Index, assignable: false, no_path: false });
                    let body = vec![Node::Text(self.text_parts())];
                    self.scope.pop();
                    self.scope.pop();
                    inner.push(Node::For { list: id("sl"), key, item: Some(it), index: Some(ix), children: body, on: if self.r.chance(0.5) { Some("text".into()) } else { None } });
                }
                if self.f.templates && self.r.chance(0.4) {
                    // a template fed with a slot value
                    inner.push(Node::TemplateIs { target: AttrVal::Static("t1".into()), data: Some(Expr::Obj(vec![ObjItem::Named("q".into(), member(id("sv"), "v")), ObjItem::Named("y".into(), id("sv"))])) });
                }
                self.scope.pop();
                self.scope.pop();
                let content = Node::El {
                    tag: "view".into(),
                    attrs: vec![Attr { name: "slot:sv".into(), val: AttrVal::None }, Attr { name: "slot:si".into(), val: AttrVal::None }, Attr { name: "slot:sl".into(), val: AttrVal::None }],
                    children: inner,
                };
                Node::El { tag: "dynself".into(), attrs, children: vec![content] }
            }
            "dynn" => {
                // dynamic-slots child with named slots: the `slot` attribute of host content
                // selects the slot instance the content belongs to
                attrs.push(Attr { name: "p".into(), val: AttrVal::Bind(self.top_expr()) });
                let mut children = vec![];
                let n = self.r.range(1, 3);
                for _ in 0..n {
                    let slot = match self.r.below(5) {
                        0 => AttrVal::Static("a".into()),
                        1 => AttrVal::Static("b".into()),
                        2 | 3 => AttrVal::Bind(if self.r.chance(0.7) { id("s") } else { Expr::Cond(Box::new(id("flag")), Box::new(Expr::Str("a".into())), Box::new(Expr::Str("b".into()))) }),
                        _ => AttrVal::None,
                    };
                    let mut a = vec![];
                    if slot != AttrVal::None {
                        a.push(Attr { name: "slot".into(), val: slot });
                    }
                    // attributes of its own: an element that moves to another slot instance is
                    // created anew during an update and must get all of them
                    if self.r.chance(0.5) {
                        a.push(Attr { name: "class".into(), val: AttrVal::Static((*self.r.pick(&["c1", "c2"])).into()) });
                    }
                    if self.r.chance(0.4) {
                        a.push(Attr { name: "id".into(), val: AttrVal::Bind(self.top_expr()) });
                    }
                    if self.r.chance(0.3) {
                        a.push(Attr { name: "data:k".into(), val: AttrVal::Static("dk".into()) });
                    }
                    if self.r.chance(0.4) {
                        a.push(Attr { name: "slot:sv".into(), val: AttrVal::None });
                        self.scope.push(ScopeVar { name: "sv".into(), kind: Kind::Any, assignable: false, no_path: false });
                        let inner = vec![Node::Text(self.text_parts())];
                        self.scope.pop();
                        children.push(Node::El { tag: "view".into(), attrs: a, children: inner });
                    } else {
                        children.push(Node::El { tag: "view".into(), attrs: a, children: vec![Node::Text(self.text_parts())] });
                    }
                }
                Node::El { tag: "dynn".into(), attrs, children }
            }
            "dynt" => {
                // dynamic-slots child whose slot sits in a sub-template fed with spread data
                let o = self.object_leaf();
                attrs.push(Attr { name: "p".into(), val: AttrVal::Bind(o) });
                self.scope.push(ScopeVar { name: "sv".into(), kind: Kind::Any, assignable: false, no_path: false });
                self.scope.push(ScopeVar { name: "si".into(), kind: Kind::Any, assignable: false, no_path: false });
                let inner = vec![Node::Text(self.text_parts())];
                self.scope.pop();
                self.scope.pop();
                let content = Node::El {
                    tag: "view".into(),
                    attrs: vec![Attr { name: "slot:sv".into(), val: AttrVal::None }, Attr { name: "slot:si".into(), val: AttrVal::None }],
                    children: inner,
                };
                Node::El { tag: "dynt".into(), attrs, children: vec![content] }
            }
            _ => {
                // dynamic-slots child: slots are produced from a property
                let items = if self.r.chance(0.7) { id("list") } else { id("l2") };
                attrs.push(Attr { name: "items".into(), val: AttrVal::Bind(items) });
                attrs.push(Attr { name: "p".into(), val: AttrVal::Bind(self.top_expr()) });
                self.scope.push(ScopeVar { name: "sv".into(), kind: Kind::Any, assignable: false, no_path: false });
                self.scope.push(ScopeVar { name: "si".into(), kind: Kind::Index, assignable: false, no_path: false });
                let mut inner = vec![Node::Text(self.text_parts())];
                if self.r.chance(0.5) {
                    // each slot value also in a binding of its own
                    inner.push(Node::El { tag: "text".into(), attrs: vec![], children: vec![Node::Text(vec![TextPart::Bind(member(id("sv"), "v"))])] });
                    inner.push(Node::El { tag: "text".into(), attrs: vec![Attr { name: "title".into(), val: AttrVal::Bind(id("si")) }], children: vec![] });
                }
                self.scope.pop();
                self.scope.pop();
                let content = if self.r.chance(0.3) {
                    // content that reads host data only: still one copy per slot instance
                    Node::El { tag: "view".into(), attrs: vec![], children: vec![Node::Text(self.text_parts())] }
                } else {
                    Node::El {
                        tag: "view".into(),
                        attrs: vec![Attr { name: "slot:sv".into(), val: AttrVal::None }, Attr { name: "slot:si".into(), val: AttrVal::None }],
                        children: inner,
                    }
                };
                let content = if self.r.chance(0.2) {
                    // the slotted element sits inside a structural wrapper
                    let c = if self.r.chance(0.5) { id("flag") } else { self.scalar_leaf() };
                    Node::If { branches: vec![(c, vec![content])], else_: None, on: None }
                } else {
                    content
                };
                let mut children = vec![content];
                if self.r.chance(0.25) {
                    // a text node directly in the slot content (one copy per slot instance, too)
                    children.insert(0, Node::Text(self.text_parts()));
                }
                Node::El { tag: kind.into(), attrs, children }
            }
        }
    }
}

// ---------------------------------------------------------------------------------------------
// values

pub struct ValGen {
    pub u: u64,
    /// records sometimes share their key value (the runtime then derives keys by order of appearance)
    pub dup_keys: bool,
}

impl ValGen {
    pub fn uniq_num(&mut self) -> Value {
        self.u += 1;
        json!(self.u)
    }
    pub fn uniq_str(&mut self) -> Value {
        self.u += 1;
        json!(format!("u{}", self.u))
    }
    pub fn scalar(&mut self, r: &mut Rng) -> Value {
        match r.below(20) {
            0 => json!(0),
            1 => json!(""),
            2 => Value::Null,
            3 => json!({"$u": 1}),
            4 => json!(true),
            5 => json!(false),
            6 => json!({"$nan": 1}),
            7 => json!({"$nz": 1}),
            8 | 9 | 10 | 11 | 12 => self.uniq_num(),
            _ => self.uniq_str(),
        }
    }
    pub fn sub_record(&mut self, r: &mut Rng) -> Value {
        let k = if self.dup_keys && r.chance(0.3) { json!(1 + r.below(2)) } else { self.uniq_num() };
        json!({"k": k, "v": self.scalar(r)})
    }
    pub fn record(&mut self, r: &mut Rng) -> Value {
        let n = r.below(3);
        let sub: Vec<Value> = (0..n).map(|_| self.sub_record(r)).collect();
        let k = if self.dup_keys && r.chance(0.4) { json!(1 + r.below(2)) } else { self.uniq_num() };
        json!({"k": k, "v": self.scalar(r), "w": self.scalar(r), "sub": sub})
    }
    pub fn records(&mut self, r: &mut Rng, max: usize) -> Value {
        let n = r.below(max + 1);
        Value::Array((0..n).map(|_| self.record(r)).collect())
    }
    pub fn scalars(&mut self, r: &mut Rng, max: usize) -> Value {
        let n = r.below(max + 1);
        Value::Array((0..n).map(|_| if r.chance(0.5) { self.uniq_num() } else { self.uniq_str() }).collect())
    }
    pub fn obj(&mut self, r: &mut Rng) -> Value {
        json!({"x": self.scalar(r), "y": {"z": self.scalar(r)}, "k": self.scalar(r)})
    }
    pub fn name(&mut self, r: &mut Rng) -> Value {
        json!(*r.pick(&["t1", "t2", "none", "a", "b", "", "x", "k", "h1", "h2"]))
    }
}

fn gen_data(r: &mut Rng, vg: &mut ValGen) -> Value {
    json!({
        "a": vg.scalar(r), "b": vg.scalar(r), "c": vg.scalar(r), "d": vg.scalar(r),
        "n": r.below(4), "s": vg.name(r), "flag": r.chance(0.5), "toString": vg.scalar(r),
        "obj": vg.obj(r), "o2": {"p": vg.scalar(r), "q": vg.scalar(r)},
        "list": vg.records(r, 4), "l2": vg.scalars(r, 4),
        "ll": (0..r.below(4)).map(|_| vg.scalars(r, 3)).collect::<Vec<_>>(),
        // an object map of records (iterated by field name)
        "om": {"p": vg.record(r), "q": vg.record(r)},
    })
}

// ---------------------------------------------------------------------------------------------
// schedule

fn seg_i(r: &mut Rng) -> Value {
    json!({"i": r.below(6)})
}

fn gen_op(r: &mut Rng, vg: &mut ValGen, f: &Features, safe_splice: bool, prop: Prop) -> Vec<Value> {
    let splice = if safe_splice { "splice_safe" } else { "splice" };
    let weights: [u32; 22] = match prop {
        Prop::C07 => [40, 6, 6, 4, 3, 3, 4, 2, 3, 2, 2, 2, 2, 2, 3, 1, 2, 2, 2, 1, 2, 1],
        Prop::C11 => [8, 6, 6, 6, 3, 3, 8, 3, 6, 4, 3, 2, 2, 2, 3, 2, 14, 1, 2, 1, 2, 1],
        _ => [10, 8, 8, 7, 4, 4, 9, 4, 6, 4, 3, 3, 3, 3, 4, 3, 5, 5, 3, 2, 3, 1],
    };
    let k = r.weighted(&weights);
    let op = match k {
        0 if r.chance(0.12) => json!(["set", ["toString"], vg.scalar(r)]),
        0 => json!(["set", [*r.pick(ROOT_SCALARS)], vg.scalar(r)]),
        1 => json!(["set", ["obj", *r.pick(&["x", "k"])], vg.scalar(r)]),
        2 => json!(["set", ["obj", "y", "z"], vg.scalar(r)]),
        3 if r.chance(0.25) => match r.below(4) {
            // (integer-like field names sort before the others: positions shift)
            0 => json!(["set", ["om", *r.pick(&["p", "q", "r", "1", "0", "5"])], vg.record(r)]),
            1 => json!(["set", ["om"], {"q": vg.record(r), "p": vg.record(r)}]),
            _ => json!(["set", ["om", *r.pick(&["p", "q"]), *r.pick(&["v", "w"])], vg.scalar(r)]),
        },
        3 => json!(["set", ["list", seg_i(r), *r.pick(&["v", "w"])], vg.scalar(r)]),
        4 => json!(["set", ["list", seg_i(r), "sub", seg_i(r), "v"], vg.scalar(r)]),
        5 if r.chance(0.3) => json!(["set", ["ll", seg_i(r), seg_i(r)], vg.uniq_str()]),
        5 => json!(["set", ["l2", seg_i(r)], if r.chance(0.5) { vg.uniq_num() } else { vg.uniq_str() }]),
        6 => {
            let n = r.below(3);
            let ins: Vec<Value> = (0..n).map(|_| vg.record(r)).collect();
            json!([splice, ["list"], r.below(6), r.below(3), ins])
        }
        7 if r.chance(0.3) => {
            if r.chance(0.5) {
                let ins: Vec<Value> = (0..r.below(2) + 1).map(|_| vg.scalars(r, 2)).collect();
                json!([splice, ["ll"], r.below(4), r.below(2), ins])
            } else {
                let ins: Vec<Value> = (0..r.below(3)).map(|_| vg.uniq_str()).collect();
                json!([splice, ["ll", seg_i(r)], r.below(4), r.below(2), ins])
            }
        }
        7 => {
            let n = r.below(3);
            let ins: Vec<Value> = (0..n).map(|_| if r.chance(0.5) { vg.uniq_num() } else { vg.uniq_str() }).collect();
            json!([splice, ["l2"], r.below(6), r.below(3), ins])
        }
        8 => json!(["reorder", [*r.pick(&["list", "list", "l2"])], *r.pick(&["reverse", "rotate", "swap"])]),
        9 => {
            let n = r.below(2) + 1;
            let ins: Vec<Value> = (0..n).map(|_| vg.sub_record(r)).collect();
            json!([splice, ["list", seg_i(r), "sub"], r.below(4), r.below(2), ins])
        }
        10 => json!(["set", ["list"], vg.records(r, 4)]),
        11 => json!(["set", ["obj"], vg.obj(r)]),
        12 => json!(["set", ["obj", "y"], {"z": vg.scalar(r)}]),
        13 => json!(["clone", [*r.pick(&["obj", "list", "o2", "l2", "a"])]]),
        14 => match r.below(3) {
            0 => json!(["set", ["n"], r.below(5)]),
            1 => json!(["set", ["s"], vg.name(r)]),
            _ => json!(["set", ["flag"], r.chance(0.5)]),
        },
        15 => {
            // key change / duplicate key
            if r.chance(0.5) {
                json!(["set", ["list", seg_i(r), "k"], vg.uniq_num()])
            } else {
                json!(["set", ["list", seg_i(r), "k"], 1 + r.below(3)])
            }
        }
        16 => json!(["model", r.below(8), if r.chance(0.8) { vg.uniq_str() } else { vg.scalar(r) }]),
        17 => {
            // the child `dynself` changes its own state (applied to every instance; skipped when
            // the world has none): slot values change without any update of the host
            match r.below(5) {
                0 => json!(["child_state", "dynself", ["own", seg_i(r), "v"], vg.scalar(r)]),
                1 => {
                    let ins: Vec<Value> = (0..r.below(3)).map(|_| vg.record(r)).collect();
                    json!(["child_state_splice", "dynself", ["own"], r.below(4), r.below(2), ins])
                }
                2 => {
                    let ins: Vec<Value> = (0..r.below(3)).map(|_| vg.sub_record(r)).collect();
                    json!(["child_state", "dynself", ["own", seg_i(r), "sub"], ins])
                }
                3 => json!(["child_state", "dynself", ["own"], vg.records(r, 3)]),
                _ => json!(["child_state", "dynself", ["own", seg_i(r)], vg.record(r)]),
            }
        }
        18 if f.type_flip => {
            let v = match r.below(6) {
                0 => Value::Null,
                1 => json!({"p1": vg.uniq_num(), "p2": vg.uniq_str()}),
                2 => json!("str"),
                3 => json!(3),
                4 => json!({"$u": 1}),
                _ => vg.records(r, 3),
            };
            json!(["set", [*r.pick(&["list", "list", "l2", "obj"])], v])
        }
        19 => json!(["timers"]),
        20 => json!(["set", ["o2", *r.pick(&["p", "q"])], vg.scalar(r)]),
        _ => json!(["clone", ["list", seg_i(r)]]),
    };
    vec![op]
}

/// an explicit update-path tree that covers the patches: exact, coarsened, or `true`
fn raw_op(r: &mut Rng, vg: &mut ValGen) -> Value {
    let mut patches: Vec<(Vec<Value>, Value)> = vec![];
    let n = r.range(1, 3);
    for _ in 0..n {
        match r.below(5) {
            0 => patches.push((vec![json!(*r.pick(ROOT_SCALARS))], vg.scalar(r))),
            1 => patches.push((vec![json!("obj"), json!("x")], vg.scalar(r))),
            2 => patches.push((vec![json!("obj"), json!("y"), json!("z")], vg.scalar(r))),
            3 => patches.push((vec![json!("o2"), json!("p")], vg.scalar(r))),
            _ => patches.push((vec![json!("n")], json!(r.below(4)))),
        }
    }
    let mode = r.below(3);
    let u = if mode == 0 {
        json!(true)
    } else {
        let mut u = json!({});
        for (p, _) in &patches {
            let depth = if mode == 1 { p.len() } else { r.range(1, p.len()) };
            let mut cur = &mut u;
            for (i, seg) in p.iter().enumerate().take(depth) {
                let k = seg.as_str().unwrap().to_string();
                if i + 1 == depth {
                    cur[&k] = json!(true);
                } else {
                    if cur.get(&k).map(|x| x == &json!(true)).unwrap_or(false) {
                        break;
                    }
                    if cur.get(&k).is_none() {
                        cur[&k] = json!({});
                    }
                    cur = cur.get_mut(&k).unwrap();
                }
            }
        }
        u
    };
    json!(["raw", patches.iter().map(|(p, v)| json!([p, v])).collect::<Vec<_>>(), u])
}

fn gen_schedule(r: &mut Rng, vg: &mut ValGen, f: &Features, safe_splice: bool, prop: Prop, deep: bool) -> Vec<Value> {
    let mut ops = vec![];
    let style = r.below(10);
    let nops = if deep { r.range(12, 36) } else { r.range(1, 12) };
    // per-run flush policy
    let flush_p = match (prop, style) {
        (Prop::C07, _) => 0.95,
        (_, 0..=2) => 1.0,
        (_, 3..=6) => 0.6,
        _ => 0.3,
    };
    for _ in 0..nops {
        if prop == Prop::C06 && r.chance(0.06) {
            ops.push(raw_op(r, vg));
            continue;
        }
        ops.extend(gen_op(r, vg, f, safe_splice, prop));
        if r.chance(flush_p) {
            ops.push(json!(["flush"]));
        }
    }
    ops.push(json!(["flush"]));
    ops
}

// ---------------------------------------------------------------------------------------------
// the catalogue of child components

pub fn catalogue_file(kind: &str) -> TFile {
    let raw = match kind {
        "plain" => "<text>P:{{p}}:{{q}}:{{p.x}}:{{p.k}}:{{p.y.z}}:{{q.length}}:{{online}}:{{bindLabel}}</text><slot/>",
        "styled" => "<text>Y:{{style}}:{{p}}</text>",
        "multi" => "<view id=\"sa\"><slot name=\"a\"/></view><view id=\"sb\"><slot name=\"b\"/></view><text>M:{{p}}</text><slot/>",
        "mchild" => "<text>V:{{val}}</text>",
        // (the slots are siblings under one parent)
        "multi2" => "<view id=\"v\">N:{{p}}</view><slot/><slot name=\"b\"/><slot name=\"a\"/>",
        "mobs" => "<text>O:{{val}}:{{max}}</text>",
        "sslots" => "<block wx:for=\"{{items}}\" wx:key=\"k\"><view id=\"w{{item.k}}\"><slot/></view></block><text>Z</text>",
        "dyn" => "<text>D:{{p}}</text><block wx:for=\"{{items}}\" wx:key=\"k\"><slot sv=\"{{item}}\" si=\"{{index}}\"/></block>",
        "dynnk" => "<text>E:{{p}}</text><block wx:for=\"{{items}}\"><slot sv=\"{{item}}\" si=\"{{index}}\"/></block>",
        "dynself" => "<text>S:{{own.length}}:{{p}}</text><block wx:for=\"{{own}}\" wx:key=\"k\"><slot sv=\"{{item}}\" si=\"{{index}}\" sl=\"{{item.sub}}\"/></block>",
        "mnest" => "<text>W:{{p.x}}:{{p.k}}</text><input model:value=\"{{p.x}}\"/><input model:value=\"{{p.y.z}}\"/>",
        "dynn" => "<text>N:{{p}}</text><view id=\"na\"><slot name=\"a\" sv=\"{{p}}\"/></view><view id=\"nb\"><slot name=\"b\" sv=\"{{p}}\"/></view><slot sv=\"{{p}}\"/>",
        "dynt" => "<template name=\"row\"><text>R:{{x}}:{{v}}</text><slot sv=\"{{x || v || p}}\" si=\"{{k}}\"/></template><text>T:{{p.k}}</text><template is=\"row\" data=\"{{...p}}\"/>",
        _ => "",
    };
    TFile { path: format!("comp/{}", kind), raw: Some(raw.into()), ..Default::default() }
}

pub fn catalogue_component(kind: &str) -> Value {
    match kind {
        "plain" => json!({"is": "plain", "path": "comp/plain", "properties": {"p": {"type": "any", "value": null}, "q": {"type": "any", "value": null}, "online": {"type": "any", "value": null}, "bindLabel": {"type": "any", "value": null}}}),
        "styled" => json!({"is": "styled", "path": "comp/styled", "properties": {"style": {"type": "any", "value": null}, "p": {"type": "any", "value": null}}}),
        "multi" => json!({"is": "multi", "path": "comp/multi", "options": {"multipleSlots": true}, "properties": {"p": {"type": "any", "value": null}}}),
        "multi2" => json!({"is": "multi2", "path": "comp/multi2", "options": {"multipleSlots": true}, "properties": {"p": {"type": "any", "value": null}}}),
        "mchild" => json!({"is": "mchild", "path": "comp/mchild", "properties": {"val": {"type": "any", "value": null}, "nval": {"type": "any", "value": null}}}),
        "dyn" => json!({"is": "dyn", "path": "comp/dyn", "options": {"dynamicSlots": true}, "properties": {"items": {"type": "any", "value": []}, "p": {"type": "any", "value": null}}}),
        "dynnk" => json!({"is": "dynnk", "path": "comp/dynnk", "options": {"dynamicSlots": true}, "properties": {"items": {"type": "any", "value": []}, "p": {"type": "any", "value": null}}}),
        "dynself" => json!({"is": "dynself", "path": "comp/dynself", "options": {"dynamicSlots": true}, "properties": {"p": {"type": "any", "value": null}}, "data": {"own": [{"k": 1, "v": "o1", "w": "p1", "sub": [{"k": 11, "v": "x1"}]}, {"k": 2, "v": "o2", "w": "p2", "sub": []}]}}),
        "mnest" => json!({"is": "mnest", "path": "comp/mnest", "properties": {"p": {"type": "any", "value": null}}}),
        "sslots" => json!({"is": "sslots", "path": "comp/sslots", "properties": {"items": {"type": "any", "value": []}}}),
        "mobs" => json!({"is": "mobs", "path": "comp/mobs", "properties": {"val": {"type": "any", "value": null}, "max": {"type": "any", "value": null}}, "clamp": {"prop": "val", "max": "max"}}),
        "dynn" => json!({"is": "dynn", "path": "comp/dynn", "options": {"dynamicSlots": true}, "properties": {"p": {"type": "any", "value": null}}}),
        "dynt" => json!({"is": "dynt", "path": "comp/dynt", "options": {"dynamicSlots": true}, "properties": {"p": {"type": "any", "value": null}}}),
        _ => json!({}),
    }
}

const WXS_INLINE: &str = "exports.j = function(a){ return JSON.stringify(a) }; exports.j.__id = '@PATH@#m:j'; exports.f = function(a){ return 'f(' + a + ')' }; exports.f.__id = '@PATH@#m:f'; exports.o = { g: function(a){ return 'g' } }; exports.o.g.__id = '@PATH@#m:o.g'; exports.k = 7; exports.rev = function(a){ return a && a.reverse ? a.slice().reverse() : a }; exports.wrap = function(a, b){ return {p: a, q: b} }; exports.pickf = function(n){ return n === 'x' || n === 'a' ? exports.f : exports.j }; exports.rows = [{k: 1, v: 'r1', w: 'w1', sub: [{k: 11, v: 's1'}], h: function(){ return 'h0' }}, {k: 2, v: 'r2', w: 'w2', sub: [], h: function(){ return 'h1' }}]; exports.rows[0].h.__id = '@PATH@#m:rows.0.h'; exports.rows[1].h.__id = '@PATH@#m:rows.1.h'";
const WXS_EXT: &str = "exports.j = function(a){ return JSON.stringify(a) }; exports.j.__id = 'utils/s:j'; exports.f = function(a){ return 's(' + a + ')' }; exports.f.__id = 'utils/s:f'; exports.o = { g: function(a){ return 'sg' } }; exports.o.g.__id = 'utils/s:o.g'; exports.k = 9; exports.rev = function(a){ return a && a.reverse ? a.slice().reverse() : a }; exports.wrap = function(a, b){ return {p: a, q: b} }; exports.pickf = function(n){ return n === 'x' || n === 'a' ? exports.f : exports.j }; exports.rows = [{k: 1, v: 'e1', w: 'x1', sub: [{k: 11, v: 't1'}], h: function(){ return 'h0' }}, {k: 2, v: 'e2', w: 'x2', sub: [], h: function(){ return 'h1' }}]; exports.rows[0].h.__id = 'utils/s:rows.0.h'; exports.rows[1].h.__id = 'utils/s:rows.1.h'";

// ---------------------------------------------------------------------------------------------

pub fn generate(seed: u64, prop: Prop) -> World {
    generate_with(seed, prop, false)
}

/// `deep`: larger templates and longer histories (a share of the thorough tier's runs)
pub fn generate_with(seed: u64, prop: Prop, deep: bool) -> World {
    let mut rc = Rng::fork(seed, "rt.config");
    let mut rt = Rng::fork(seed, "rt.template");
    let mut rd = Rng::fork(seed, "rt.data");
    let mut ro = Rng::fork(seed, "rt.ops");
    let mut rs = Rng::fork(seed, "rt.syntax");

    // swarm: enabled feature subset per run
    let f = Features {
        index_reads: rc.chance(0.25),
        obj_literals: rc.chance(0.5),
        arr_literals: rc.chance(0.5),
        holes: rc.chance(0.4),
        calls: rc.chance(0.5),
        templates: rc.chance(0.4),
        include: rc.chance(0.25),
        comps: rc.chance(0.55),
        dyn_slots: rc.chance(0.4),
        root_slots: rc.chance(0.25),
        dup_keys: rc.chance(0.15),
        script_lists: rc.chance(0.3),
        model: rc.chance(if prop == Prop::C11 { 0.95 } else { 0.5 }),
        events: rc.chance(0.5),
        type_flip: rc.chance(0.3),
        for_object: rc.chance(0.4),
        nested_for: rc.chance(0.6),
    };
    let mut config = Config::default();
    config.update_mode = match prop {
        Prop::C07 => String::new(),
        _ => (*rc.pick(&["", "", "", "virtualTree"])).to_string(),
    };
    // ("recorded": the repository's strict in-memory composed backend, whose child lists show the
    // order in which the runtime handed nodes to the backend)
    config.backend = (*rc.pick(&["composed", "recorded", "shadow", "recorded"])).to_string();
    config.data_deep_copy = (*rc.pick(&["", "", "none", "simple-recursion"])).to_string();
    // propertyPassingDeepCopy "none" is not in the workload: it hands children the host's own
    // arrays, and its documentation says in-place changes then go unnoticed by the child
    config.prop_deep_copy = (*rc.pick(&["", "", "simple-recursion"])).to_string();
    let safe_splice_pref = rc.chance(0.7);
    let size = if deep { rc.range(18, 45) as i32 } else { rc.range(3, if prop == Prop::C07 { 14 } else { 22 }) as i32 };

    let with_inline = f.calls || f.events;
    let with_ext = (f.calls || f.events) && rc.chance(0.5);
    let mut modules = vec![];
    if with_inline {
        modules.push("m".to_string());
    }
    if with_ext {
        modules.push("ms".to_string());
    }

    // the root template sometimes lives in a sub-directory (relative references then climb)
    let root_path: String = if rc.chance(0.3) { "pages/main/index".into() } else { "index".into() };
    let up = if root_path.contains('/') { "../../" } else { "" };
    let mut root = TFile { path: root_path.clone(), style: if rs.chance(0.6) { rs.below(64) as u32 } else { 0 }, ..Default::default() };
    if with_inline {
        root.wxs_inline.push(("m".into(), WXS_INLINE.replace("@PATH@", &root_path)));
    }
    if with_ext {
        let spell = match rt.below(3) {
            0 => "/utils/s".to_string(),
            1 => format!("{}utils/s.wxs", up),
            _ => format!("./{}utils/s", up),
        };
        root.wxs_ext.push(("ms".into(), spell));
    }
    let mut ctx = Ctx { r: &mut rt, f: f.clone(), scope: vec![], in_template: false, modules: modules.clone(), budget: size, prop, used_comps: vec![], used_index_reads: false, allow_nested_template: false };
    let mut body = ctx.nodes(0);
    while ctx.budget > 0 && body.len() < 6 {
        body.extend(ctx.nodes(0));
    }
    root.body = body;
    let mut files = vec![];
    // templates: local and imported
    let mut lib: Option<TFile> = None;
    if f.templates {
        let mut mk = |ctx: &mut Ctx, name: &str| -> (String, Vec<Node>) {
            ctx.in_template = true;
            ctx.budget = 4;
            let saved = std::mem::take(&mut ctx.scope);
            let b = ctx.nodes(1);
            ctx.scope = saved;
            ctx.in_template = false;
            (name.to_string(), b)
        };
        let mut l = TFile { path: "lib/tpls".into(), style: if rs.chance(0.5) { rs.below(64) as u32 } else { 0 }, ..Default::default() };
        l.templates.push(mk(&mut ctx, "t1"));
        ctx.allow_nested_template = true;
        l.templates.push(mk(&mut ctx, "t2"));
        ctx.allow_nested_template = false;
        let spell = match ctx.r.below(3) {
            0 => "/lib/tpls".to_string(),
            1 => format!("{}lib/tpls.wxml", up),
            _ => format!("./{}lib/tpls", up),
        };
        root.imports.push(spell);
        if ctx.r.chance(0.3) {
            // a local definition shadows the imported one
            root.templates.push(mk(&mut ctx, "t1"));
        }
        lib = Some(l);
    }
    let mut inc: Option<TFile> = None;
    if f.include {
        ctx.budget = 5;
        let mut i = TFile { path: "inc/part".into(), style: if rs.chance(0.5) { rs.below(64) as u32 } else { 0 }, ..Default::default() };
        let saved_mods = std::mem::take(&mut ctx.modules);
        // (the included file must not include itself)
        ctx.f.include = false;
        i.body = ctx.nodes(1);
        ctx.f.include = true;
        ctx.modules = saved_mods;
        inc = Some(i);
    }
    let used_comps = ctx.used_comps.clone();
    let used_index_reads = ctx.used_index_reads;
    drop(ctx);
    files.push(root);
    if let Some(l) = lib {
        files.push(l);
    }
    if let Some(i) = inc {
        files.push(i);
    }
    let mut components = vec![];
    let mut using = serde_json::Map::new();
    for k in &used_comps {
        files.push(catalogue_file(k));
        components.push(catalogue_component(k));
        using.insert(k.clone(), json!(k));
    }
    let mut root_comp = json!({"is": "root", "path": root_path, "root": true, "using": using, "methods": ["h1", "h2"]});
    if f.root_slots {
        root_comp["options"] = json!({"dynamicSlots": true});
    }
    components.push(root_comp);
    let mut scripts = vec![];
    if with_ext {
        scripts.push(("utils/s".to_string(), WXS_EXT.to_string()));
    }

    let mut vg = ValGen { u: 100, dup_keys: f.dup_keys };
    let data = gen_data(&mut rd, &mut vg);
    let safe = used_index_reads && safe_splice_pref;
    let schedule = gen_schedule(&mut ro, &mut vg, &f, safe, prop, deep);
    let indexed_lists: Vec<Vec<String>> = if used_index_reads {
        vec![vec!["list".into()], vec!["l2".into()], vec!["list".into(), "*".into(), "sub".into()]]
    } else {
        vec![]
    };
    if prop == Prop::C14 {
        let mut rm = Rng::fork(seed, "rt.mutate");
        if rm.chance(0.33) {
            let src = files[0].to_wxml();
            let mut chars: Vec<char> = src.chars().collect();
            let n_mut = rm.range(1, 2);
            for _ in 0..n_mut {
                if chars.is_empty() {
                    break;
                }
                // mostly outside the body of the inline script (a broken script only makes the
                // world unexecutable)
                let script_end = {
                    let hay: String = chars.iter().collect();
                    hay.find("</wxs>").map(|b| hay[..b].chars().count()).unwrap_or(0)
                };
                let at = if script_end > 0 && script_end < chars.len() && rm.chance(0.9) { script_end + rm.below(chars.len() - script_end) } else { rm.below(chars.len()) };
                match rm.below(6) {
                    0 => {
                        chars.remove(at);
                    }
                    1 => {
                        let c = chars[at];
                        chars.insert(at, c);
                    }
                    2 | 3 => {
                        let ins = *rm.pick(&["<", ">", "{{", "}}", "\"", "'", "&", "</view>", "<view>", " wx:if", "/", "<!--", "-->", "=", " "]);
                        for (k, c) in ins.chars().enumerate() {
                            chars.insert(at + k, c);
                        }
                    }
                    4 => {
                        chars.truncate(at);
                    }
                    _ => {
                        if at + 1 < chars.len() {
                            chars.swap(at, at + 1);
                        }
                    }
                }
            }
            files[0].raw = Some(chars.into_iter().collect());
        }
    }
    World {
        files,
        scripts,
        components,
        data,
        config,
        schedule,
        indexed_lists,
        script_values: json!({format!("{}#m:k", root_path): 7, "utils/s:k": 9}),
        root_path,
    }
}
