//! C13 — cross-file references resolve by normalised path and are reported.
//! A 20-line resolver written from the statement is the reference model. Two workloads:
//!  * pairs: (referrer path, src spelling) pairs, enumerated as consecutive run indices; the
//!    dependency queries and the path literals in the emitted code must agree with the model;
//!  * links: multi-file groups with colliding template names, built under seeded insertion
//!    schedules of the group simulator (permutation, partition + import_group, duplicates, entropy),
//!    then executed in the real runtime with every file as root; the rendered marker sequence must
//!    be the model's, for every schedule.

use crate::common::*;
use crate::group_sim::{self, GExec, GFile, GOp, GroupWorld};
use crate::rng::{fnv, mix, Rng};
use crate::rt::with_worker;
use crate::Args;
use serde_json::{json, Value};
use std::time::Instant;

// ---------------------------------------------------------------------------------------------
// reference model

#[derive(Clone, Debug, PartialEq)]
pub struct Resolved {
    pub path: String,
    /// the statement fixes no normal form (empty segment, `..` above the root)
    pub ambiguous: bool,
}

/// From the statement: resolve against the directory of the referrer (or the root when `src`
/// starts with `/`), normalise `.` and `..`, ignore one optional suffix.
pub fn model_resolve(base: &str, src: &str, suffix: &str) -> Resolved {
    let src = src.strip_suffix(suffix).unwrap_or(src);
    let mut ambiguous = false;
    let mut segs: Vec<&str> = vec![];
    let rel = if let Some(r) = src.strip_prefix('/') {
        r
    } else {
        let mut b: Vec<&str> = base.split('/').collect();
        b.pop();
        segs = b;
        src
    };
    for s in rel.split('/') {
        match s {
            "." => {}
            "" => ambiguous = true,
            ".." => {
                if segs.pop().is_none() {
                    ambiguous = true;
                }
            }
            x => segs.push(x),
        }
    }
    if segs.is_empty() {
        ambiguous = true;
    }
    Resolved { path: segs.join("/"), ambiguous }
}

// ---------------------------------------------------------------------------------------------
// pairs

const BASES: &[&str] = &["a", "b", "a/a", "a/b", "b/a", "b/b", "a/a/a", "a/b/a", "b/a/b", "a/a/a/b"];
const SYMS: &[&str] = &["a", "b", ".", "..", ""];

fn pair_count() -> u64 {
    // rel paths of 1..=4 segments over 5 symbols, x leading slash x suffix x bases
    let rels: u64 = 5 + 25 + 125 + 625;
    rels * 2 * 4 * BASES.len() as u64
}

/// suffix mode: 0 none, 1 the reference's own suffix, 2 the other kind's suffix (must be kept),
/// 3 the own suffix twice (one is stripped)
fn pair_of(idx: u64) -> (String, String, u8) {
    let mut i = idx;
    let base = BASES[(i % BASES.len() as u64) as usize];
    i /= BASES.len() as u64;
    let suffix = (i % 4) as u8;
    i /= 4;
    let slash = i % 2 == 1;
    i /= 2;
    // i in 0..780 -> segment string
    let (mut n, mut rest) = (1u32, i);
    let mut size = 5u64;
    while rest >= size {
        rest -= size;
        size *= 5;
        n += 1;
    }
    let mut segs = vec![];
    for _ in 0..n {
        segs.push(SYMS[(rest % 5) as usize]);
        rest /= 5;
    }
    let mut rel = segs.join("/");
    if slash {
        rel = format!("/{}", rel);
    }
    (base.to_string(), rel, suffix)
}

fn js_lit(s: &str) -> String {
    format!("{:?}", s)
}

pub struct PairOut {
    pub outcome: Outcome,
    pub stats: Stats,
    pub replay: Option<Value>,
}

pub fn run_pair(base: &str, rel: &str, suffix: u8) -> PairOut {
    let mut stats = Stats::default();
    let (tsrc, ssrc) = match suffix {
        1 => (format!("{}.wxml", rel), format!("{}.wxs", rel)),
        2 => (format!("{}.wxs", rel), format!("{}.wxml", rel)),
        3 => (format!("{}.wxml.wxml", rel), format!("{}.wxs.wxs", rel)),
        _ => (rel.to_string(), rel.to_string()),
    };
    if rel.is_empty() || tsrc.contains('"') {
        stats.add("discard.degenerate_pair", 1);
        return PairOut { outcome: Outcome::Discard("degenerate".into()), stats, replay: None };
    }
    let source = format!("<import src=\"{}\"/><wxs module=\"m\" src=\"{}\"/><include src=\"{}\"/>", tsrc, ssrc, tsrc);
    let mt = model_resolve(base, &tsrc, ".wxml");
    let ms = model_resolve(base, &ssrc, ".wxs");
    let base_s = base.to_string();
    let src2 = source.clone();
    let r = std::panic::catch_unwind(move || {
        let mut g = glass_easel_template_compiler::TmplGroup::new();
        g.add_tmpl(&base_s, &src2);
        let d: Vec<String> = g.direct_dependencies(&base_s).map(|i| i.collect()).unwrap_or_default();
        let s: Vec<String> = g.script_dependencies(&base_s).map(|i| i.collect()).unwrap_or_default();
        let js = g.get_tmpl_gen_object(&base_s).unwrap_or_default();
        (d, s, js)
    });
    let (mut d, s, js) = match r {
        Ok(x) => x,
        Err(_) => {
            stats.add("discard.compiler_panic", 1);
            return PairOut { outcome: Outcome::Discard("compiler panicked".into()), stats, replay: None };
        }
    };
    d.sort();
    let replay = |class: &str, detail: &str| {
        json!({"property": "C13", "engine": "pairs", "class": class, "detail": detail, "base": base, "rel": rel, "suffix": suffix, "source": source})
    };
    let viol = |class: &str, detail: String| PairOut {
        outcome: Outcome::Violated(Violation { class: class.into(), detail: detail.clone() }),
        stats: Stats::default(),
        replay: Some(replay(class, &detail)),
    };
    // self-consistency (always): the emitted code names exactly the paths the queries report
    if d.len() != 2 || s.len() != 1 {
        return viol("dependency_query_wrong_arity", format!("referrer {} src {:?}: direct_dependencies={:?} script_dependencies={:?}", base, tsrc, d, s));
    }
    for dep in &d {
        if !js.contains(&format!("G[{}]", js_lit(dep))) {
            return viol("emitted_code_links_other_path", format!("referrer {} src {:?}: direct_dependencies reports {:?} but the emitted code has no G[{}]", base, tsrc, dep, js_lit(dep)));
        }
    }
    if !js.contains(&format!("R[{}]", js_lit(&s[0]))) {
        return viol("emitted_code_links_other_script", format!("referrer {} src {:?}: script_dependencies reports {:?} but the emitted code has no R[{}]", base, ssrc, s[0], js_lit(&s[0])));
    }
    stats.add("probe.self_consistency_checked", 1);
    // against the model (only where the statement fixes the answer)
    if mt.ambiguous {
        stats.add("probe.ambiguous_src_only_self_consistency", 1);
    } else {
        stats.add("probe.model_compared", 1);
        if d[0] != mt.path || d[1] != mt.path {
            return viol("dependency_query_differs_from_resolver", format!("referrer {} src {:?}: direct_dependencies={:?}, the resolver says {:?}", base, tsrc, d, mt.path));
        }
        if s[0] != ms.path {
            return viol("script_dependency_differs_from_resolver", format!("referrer {} src {:?}: script_dependencies={:?}, the resolver says {:?}", base, ssrc, s, ms.path));
        }
    }
    PairOut { outcome: Outcome::Held, stats, replay: None }
}

// ---------------------------------------------------------------------------------------------
// link worlds

#[derive(Clone, Debug)]
pub enum Item {
    Include(usize, String),
    /// use of a template name
    Is(String),
    /// the same through a binding (`is="{{ 'name' }}"`)
    IsDyn(String),
    /// text showing a script's own path through module i
    Wxs(usize),
}

#[derive(Clone, Debug)]
pub struct LFile {
    pub path: String,
    /// (target file index, src spelling)
    pub imports: Vec<(usize, String)>,
    /// (script index, src spelling)
    pub wxs: Vec<(usize, String)>,
    pub templates: Vec<String>,
    pub body: Vec<Item>,
}

#[derive(Clone, Debug)]
pub struct LinkWorld {
    pub files: Vec<LFile>,
    pub scripts: Vec<String>,
}

const LPATHS: &[&str] = &["index", "a", "b", "d/a", "d/b", "d/e/a", "p/q/r", "d/index", "x/y"];
const SPATHS: &[&str] = &["s/one", "lib/two", "d/three"];
const TNAMES: &[&str] = &["t1", "t2", "t3", "toString", "constructor", "a-b", "0"];

fn spell(r: &mut Rng, from: &str, to: &str, suffix: &str) -> String {
    let dir: Vec<&str> = {
        let mut v: Vec<&str> = from.split('/').collect();
        v.pop();
        v
    };
    let mut s = match r.below(5) {
        0 => format!("/{}", to),
        1 => {
            let mut x = String::from("./");
            for _ in 0..dir.len() {
                x.push_str("../");
            }
            x.push_str(to);
            x
        }
        2 => {
            let mut x = String::new();
            for _ in 0..dir.len() {
                x.push_str("../");
            }
            x.push_str(to);
            x
        }
        3 => {
            // detour: down and up again
            let mut x = String::new();
            for _ in 0..dir.len() {
                x.push_str("../");
            }
            format!("{}zz/./../{}", x, to)
        }
        _ => {
            // relative when the target shares the directory prefix
            let tdir: Vec<&str> = {
                let mut v: Vec<&str> = to.split('/').collect();
                v.pop();
                v
            };
            if tdir == dir {
                to.rsplit('/').next().unwrap().to_string()
            } else {
                format!("/{}", to)
            }
        }
    };
    if r.chance(0.5) {
        s.push_str(suffix);
    }
    s
}

pub fn gen_link_world(seed: u64) -> LinkWorld {
    let mut r = Rng::fork(seed, "c13.link");
    let k = r.range(2, 6);
    let mut paths: Vec<&str> = LPATHS.to_vec();
    r.shuffle(&mut paths);
    paths.truncate(k);
    let ns = r.below(3);
    let mut sp: Vec<&str> = SPATHS.to_vec();
    r.shuffle(&mut sp);
    sp.truncate(ns);
    let mut files: Vec<LFile> = paths.iter().map(|p| LFile { path: p.to_string(), imports: vec![], wxs: vec![], templates: vec![], body: vec![] }).collect();
    for i in 0..k {
        for t in TNAMES {
            if r.chance(0.45) {
                files[i].templates.push(t.to_string());
            }
        }
        // references only to later files (no cycles)
        for j in i + 1..k {
            if r.chance(0.5) {
                let s = spell(&mut r, &paths[i], &paths[j], ".wxml");
                files[i].imports.push((j, s));
            }
        }
        if r.chance(0.3) {
            // import of a file that does not exist
            files[i].imports.push((usize::MAX, "/missing/file".into()));
        }
        r.shuffle(&mut files[i].imports);
        if files[i].imports.len() >= 2 && r.chance(0.35) {
            // the same target imported again later (possibly spelled differently): the later one wins
            let k = r.below(files[i].imports.len() - 1);
            let j = files[i].imports[k].0;
            if j != usize::MAX {
                let s = spell(&mut r, &paths[i], &paths[j], ".wxml");
                files[i].imports.push((j, s));
            }
        }
        for (si, s) in sp.iter().enumerate() {
            if r.chance(0.5) {
                let spelled = spell(&mut r, &paths[i], s, ".wxs");
                files[i].wxs.push((si, spelled));
            }
        }
        let n = r.range(1, 5);
        for _ in 0..n {
            match r.below(3) {
                0 if i + 1 < k => {
                    let j = r.range(i + 1, k - 1);
                    let s = spell(&mut r, &paths[i], &paths[j], ".wxml");
                    files[i].body.push(Item::Include(j, s));
                }
                1 if !files[i].wxs.is_empty() => {
                    let w = r.below(files[i].wxs.len());
                    files[i].body.push(Item::Wxs(w));
                }
                _ if r.chance(0.3) => files[i].body.push(Item::IsDyn(r.pick(TNAMES).to_string())),
                _ => files[i].body.push(Item::Is(r.pick(TNAMES).to_string())),
            }
        }
        if r.chance(0.2) {
            files[i].body.push(Item::Include(usize::MAX, "/missing/inc".into()));
        }
    }
    LinkWorld { files, scripts: sp.iter().map(|s| s.to_string()).collect() }
}

impl LinkWorld {
    pub fn source(&self, i: usize) -> String {
        let f = &self.files[i];
        let mut s = String::new();
        for (_, src) in &f.imports {
            s.push_str(&format!("<import src=\"{}\"/>", src));
        }
        for (k, (_, src)) in f.wxs.iter().enumerate() {
            s.push_str(&format!("<wxs module=\"m{}\" src=\"{}\"/>", k, src));
        }
        for t in &f.templates {
            s.push_str(&format!("<template name=\"{}\"><text>T[{}:{}]</text></template>", t, f.path, t));
        }
        s.push_str(&format!("<text>M[{}]</text>", f.path));
        for it in &f.body {
            match it {
                Item::Include(_, src) => s.push_str(&format!("<include src=\"{}\"/>", src)),
                Item::Is(n) => s.push_str(&format!("<template is=\"{}\"/>", n)),
                // (a numeric name is computed as a number: the name is its string form)
                Item::IsDyn(n) if n.parse::<u32>().is_ok() => s.push_str(&format!("<template is=\"{{{{ {} }}}}\"/>", n)),
                Item::IsDyn(n) => s.push_str(&format!("<template is=\"{{{{ '{}' }}}}\"/>", n)),
                Item::Wxs(k) => s.push_str(&format!("<text>{{{{ m{}.path }}}}</text>", k)),
            }
        }
        s
    }
    pub fn script_source(&self, i: usize) -> String {
        // (the text of a script is arbitrary: some end in a line comment without a line break)
        if i % 2 == 1 {
            format!("exports.path = 'S[{}]' // script {}", self.scripts[i], i)
        } else {
            format!("exports.path = 'S[{}]'", self.scripts[i])
        }
    }
    /// the model's rendering of file i as root (texts in document order)
    pub fn model_render(&self, i: usize, out: &mut Vec<String>) {
        let f = &self.files[i];
        out.push(format!("M[{}]", f.path));
        for it in &f.body {
            match it {
                Item::Include(j, _) => {
                    if *j != usize::MAX {
                        self.model_render(*j, out);
                    }
                }
                Item::Is(n) | Item::IsDyn(n) => {
                    // local definitions first, then later imports before earlier ones
                    if f.templates.iter().any(|t| t == n) {
                        out.push(format!("T[{}:{}]", f.path, n));
                    } else if let Some((j, _)) = f.imports.iter().rev().find(|(j, _)| *j != usize::MAX && self.files[*j].templates.iter().any(|t| t == n)) {
                        out.push(format!("T[{}:{}]", self.files[*j].path, n));
                    }
                }
                Item::Wxs(k) => out.push(format!("S[{}]", self.scripts[f.wxs[*k].0])),
            }
        }
    }
    pub fn model_deps(&self, i: usize) -> (Vec<String>, Vec<String>) {
        let f = &self.files[i];
        let mut d: Vec<String> = vec![];
        for (j, src) in &f.imports {
            d.push(if *j == usize::MAX { model_resolve(&f.path, src, ".wxml").path } else { self.files[*j].path.clone() });
        }
        for it in &f.body {
            if let Item::Include(j, src) = it {
                d.push(if *j == usize::MAX { model_resolve(&f.path, src, ".wxml").path } else { self.files[*j].path.clone() });
            }
        }
        d.sort();
        let mut s: Vec<String> = f.wxs.iter().map(|(si, _)| self.scripts[*si].clone()).collect();
        s.sort();
        (d, s)
    }
    pub fn to_group_world(&self) -> GroupWorld {
        let mut g = GroupWorld::default();
        for i in 0..self.files.len() {
            g.files.push(GFile { path: self.files[i].path.clone(), chunks: vec![self.source(i)], old_chunks: None });
        }
        for i in 0..self.scripts.len() {
            g.scripts.push((self.scripts[i].clone(), self.script_source(i)));
        }
        g
    }
    pub fn to_json(&self) -> Value {
        json!({
            "files": (0..self.files.len()).map(|i| json!([self.files[i].path, self.source(i)])).collect::<Vec<_>>(),
            "scripts": (0..self.scripts.len()).map(|i| json!([self.scripts[i], self.script_source(i)])).collect::<Vec<_>>(),
            "model_render": (0..self.files.len()).map(|i| { let mut o = vec![]; self.model_render(i, &mut o); json!([self.files[i].path, o]) }).collect::<Vec<_>>(),
            "model_deps": (0..self.files.len()).map(|i| { let (d, s) = self.model_deps(i); json!([self.files[i].path, d, s]) }).collect::<Vec<_>>(),
        })
    }
}

pub struct LinkOut {
    pub outcome: Outcome,
    pub stats: Stats,
    pub exec: Option<GExec>,
}

fn get_emit<'a>(e: &'a group_sim::Emission, name: &str) -> Option<&'a [u8]> {
    e.iter().find(|(n, _)| n == name).map(|(_, b)| b.as_slice())
}

/// Explicit form: files/scripts/model_* from JSON (used for replay and by run_link_world).
pub fn run_link_explicit(w: &Value, execs: &[GExec]) -> LinkOut {
    let mut stats = Stats::default();
    let mut g = GroupWorld::default();
    for f in w["files"].as_array().cloned().unwrap_or_default() {
        g.files.push(GFile { path: f[0].as_str().unwrap_or("").into(), chunks: vec![f[1].as_str().unwrap_or("").into()], old_chunks: None });
    }
    for s in w["scripts"].as_array().cloned().unwrap_or_default() {
        g.scripts.push((s[0].as_str().unwrap_or("").into(), s[1].as_str().unwrap_or("").into()));
    }
    let canon = match group_sim::execute(&g, &group_sim::canonical_exec(&g)) {
        Ok(c) => c,
        Err(p) => {
            stats.add("discard.compiler_panic_in_canonical", 1);
            return LinkOut { outcome: Outcome::Discard(p), stats, exec: None };
        }
    };
    let viol = |class: &str, detail: String, exec: Option<GExec>, stats: Stats| LinkOut { outcome: Outcome::Violated(Violation { class: class.into(), detail }), stats, exec };
    // (i) dependency queries == the model's resolved lists
    for md in w["model_deps"].as_array().cloned().unwrap_or_default() {
        let p = md[0].as_str().unwrap_or("");
        let want_d: Vec<String> = md[1].as_array().map(|a| a.iter().filter_map(|x| x.as_str().map(String::from)).collect()).unwrap_or_default();
        let want_s: Vec<String> = md[2].as_array().map(|a| a.iter().filter_map(|x| x.as_str().map(String::from)).collect()).unwrap_or_default();
        let got_d = String::from_utf8_lossy(get_emit(&canon.emission, &format!("direct_dependencies({})", p)).unwrap_or(b"")).to_string();
        let got_s = String::from_utf8_lossy(get_emit(&canon.emission, &format!("script_dependencies({})", p)).unwrap_or(b"")).to_string();
        stats.add("probe.dependency_lists_compared", 1);
        if got_d != want_d.join("\n") {
            return viol("dependency_query_differs_from_resolver", format!("file {}: direct_dependencies = {:?}, the resolver says {:?}", p, got_d.split('\n').collect::<Vec<_>>(), want_d), None, stats);
        }
        if got_s != want_s.join("\n") {
            return viol("script_dependency_differs_from_resolver", format!("file {}: script_dependencies = {:?}, the resolver says {:?}", p, got_s.split('\n').collect::<Vec<_>>(), want_s), None, stats);
        }
    }
    // (iii) every insertion schedule gives the same bundle and the same dependency lists
    for e in execs {
        group_sim::count_exec_faults(&g, e, &mut stats);
        stats.add("step.executions", 1);
        match group_sim::execute(&g, e) {
            Ok(got) => {
                if let Some(v) = group_sim::compare(&canon, &got) {
                    return viol("insertion_history_changes_output", v.detail, Some(e.clone()), stats);
                }
            }
            Err(p) => return viol("panic_in_some_process", p, Some(e.clone()), stats),
        }
    }
    // (ii) execute the bundle: every file as root renders the model's marker sequence
    let bundle = String::from_utf8_lossy(get_emit(&canon.emission, "get_tmpl_gen_object_groups").unwrap_or(b"")).to_string();
    let roots: Vec<String> = g.files.iter().map(|f| f.path.clone()).collect();
    let resp = with_worker(|wk| wk.call(json!({"kind": "link", "bundle": bundle, "roots": roots, "data": {}})));
    let resp = match resp {
        Ok(r) if r["status"] == "ok" => r,
        // every source of a link world is well-formed: a bundle that cannot even be evaluated
        // links nothing
        Ok(r) if r["reason"].as_str().unwrap_or("").starts_with("bundle does not evaluate") => {
            return viol("linked_bundle_does_not_evaluate", format!("the bundle of the group cannot be evaluated: {}", r["reason"].as_str().unwrap_or("")), None, stats);
        }
        Ok(r) => {
            stats.add("discard.unexecutable_world", 1);
            return LinkOut { outcome: Outcome::Discard(format!("unexecutable: {}", r["reason"].as_str().unwrap_or(""))), stats, exec: None };
        }
        Err(e) => {
            stats.add("discard.executor_failure", 1);
            return LinkOut { outcome: Outcome::Discard(e), stats, exec: None };
        }
    };
    for mr in w["model_render"].as_array().cloned().unwrap_or_default() {
        let p = mr[0].as_str().unwrap_or("");
        let want: Vec<String> = mr[1].as_array().map(|a| a.iter().filter_map(|x| x.as_str().map(String::from)).collect()).unwrap_or_default();
        let got = resp["renders"].as_array().and_then(|a| a.iter().find(|x| x["root"] == p)).cloned().unwrap_or(Value::Null);
        if got["throws"].is_string() || got["errors"].as_u64().unwrap_or(0) > 0 {
            // every construct of a link world has a defined rendering (a missing target renders
            // nothing), so a render that throws linked something the model does not know
            stats.add("probe.render_throws", 1);
            return viol(
                "linked_render_throws",
                format!("root {}: rendering throws ({}), the resolver/linker model says {:?}", p, got["throws"].as_str().or(got["error"].as_str()).unwrap_or(""), want),
                None,
                stats,
            );
        }
        let texts: Vec<String> = got["texts"].as_array().map(|a| a.iter().filter_map(|x| x.as_str().map(String::from)).collect()).unwrap_or_default();
        stats.add("probe.roots_rendered", 1);
        stats.add("step.oracle_evaluations", 1);
        if texts != want {
            return viol("linked_target_differs_from_resolver", format!("root {}: rendered {:?}, the resolver/linker model says {:?}", p, texts, want), None, stats);
        }
    }
    // (iv) incremental builds: each file's object is generated right after the file was added,
    // when its imports may not be in the group yet; the objects are then put together. Linking is
    // by path at run time, so the result must not depend on what was present at generation time.
    for reversed in [false, true] {
        let mut order: Vec<usize> = (0..g.files.len()).collect();
        if reversed {
            order.reverse();
        }
        let bundle = match incremental_bundle(&g, &order) {
            Ok(b) => b,
            Err(e) => {
                stats.add("discard.incremental_bundle_failed", 1);
                return LinkOut { outcome: Outcome::Discard(e), stats, exec: None };
            }
        };
        let resp = with_worker(|wk| wk.call(json!({"kind": "link", "bundle": bundle, "roots": roots, "data": {}})));
        let resp = match resp {
            Ok(r) if r["status"] == "ok" => r,
            Ok(r) => {
                return viol("incremental_objects_do_not_evaluate", format!("objects generated file by file ({} order) do not evaluate: {}", if reversed { "reverse" } else { "world" }, r["reason"].as_str().unwrap_or("")), None, stats);
            }
            Err(e) => {
                stats.add("discard.executor_failure", 1);
                return LinkOut { outcome: Outcome::Discard(e), stats, exec: None };
            }
        };
        for mr in w["model_render"].as_array().cloned().unwrap_or_default() {
            let p = mr[0].as_str().unwrap_or("");
            let want: Vec<String> = mr[1].as_array().map(|a| a.iter().filter_map(|x| x.as_str().map(String::from)).collect()).unwrap_or_default();
            let got = resp["renders"].as_array().and_then(|a| a.iter().find(|x| x["root"] == p)).cloned().unwrap_or(Value::Null);
            let texts: Vec<String> = got["texts"].as_array().map(|a| a.iter().filter_map(|x| x.as_str().map(String::from)).collect()).unwrap_or_default();
            stats.add("probe.incremental_roots_rendered", 1);
            if got["throws"].is_string() || texts != want {
                return viol(
                    "incremental_objects_link_differently",
                    format!("root {}: objects generated right after each add_tmpl ({} order) render {:?} {}, the resolver/linker model says {:?}", p, if reversed { "reverse" } else { "world" }, texts, got["throws"].as_str().unwrap_or(""), want),
                    None,
                    stats,
                );
            }
        }
    }
    LinkOut { outcome: Outcome::Held, stats, exec: None }
}

/// The bundle an incremental build would assemble: every file's object as generated right after
/// that file was added to the group.
fn incremental_bundle(g: &GroupWorld, order: &[usize]) -> Result<String, String> {
    let r = std::panic::catch_unwind(std::panic::AssertUnwindSafe(|| {
        let mut group = glass_easel_template_compiler::TmplGroup::new();
        for (p, c) in &g.scripts {
            group.add_script(p, c);
        }
        let mut objs: Vec<(String, String)> = vec![];
        for i in order {
            let f = &g.files[*i];
            group.add_tmpl(&f.path, &f.src());
            let o = group.get_tmpl_gen_object(&f.path).map_err(|e| e.message.clone())?;
            objs.push((f.path.clone(), o));
        }
        let globals = group.export_globals().map_err(|e| e.message.clone())?;
        let scripts = group.export_all_scripts().map_err(|e| e.message.clone())?;
        let mut s = String::from("(()=>{var G={};var R={};");
        s.push_str(&globals);
        s.push(';');
        s.push_str(&scripts);
        s.push(';');
        for (p, o) in objs {
            s.push_str(&format!("G[{}]={};", serde_json::to_string(&p).unwrap(), o));
        }
        s.push_str("return G})()");
        Ok::<String, String>(s)
    }));
    match r {
        Ok(x) => x,
        Err(_) => Err("compiler panicked".into()),
    }
}

fn link_execs(seed: u64, g: &GroupWorld, m: usize) -> Vec<GExec> {
    // reuse the group simulator's schedule generator through a dummy generate(): build explicitly
    let mut out = vec![];
    for i in 0..m {
        let mut r = Rng::fork(seed, &format!("c13.exec.{}", i));
        out.push(group_sim::gen_exec_pub(&mut r, g, i as u64));
    }
    out
}

// ---------------------------------------------------------------------------------------------

const RULE: &str = "two workloads. pairs: run index -> (referrer path from 10 bases of depth 1-4, src of 1-4 segments over {a, b, ., .., empty}, leading '/', optional suffix): the whole space (62 400 pairs, four suffix modes: none, own, the other kind's, own twice) is enumerated in the thorough tier, a seeded sample in the quick tier; direct_dependencies/script_dependencies must equal the reference resolver where the statement fixes the answer, and the emitted code must name exactly the reported paths everywhere (self-consistency, also for ambiguous spellings). links: generated groups of 2-6 files with colliding template names, imports/includes/wxs references in varied spellings (incl. missing targets), built under 4-8 seeded insertion schedules each (permutation, partition + import_group, duplicates, entropy stream), executed in the real runtime with every file as root: rendered marker sequence must equal the reference linker's. distinct = hash of (sources) or of the pair; non-trivial = a pair compared with the model / a link world with >= 2 files and >= 1 cross-file reference rendered.";

pub fn check(args: &Args) -> i32 {
    let t0 = Instant::now();
    let thorough = args.tier == "thorough";
    let seed = args.seed;
    let total_pairs = pair_count();
    let n_pairs = if thorough { total_pairs } else { args.runs.unwrap_or(12_000).min(total_pairs) };
    let n_links = if thorough { 150_000 } else { args.runs.map(|r| r / 4).unwrap_or(3_000) };
    // pairs (pure Rust, cheap)
    let pair_outs = parallel_map(n_pairs, args.workers, move |i| {
        let idx = if n_pairs == total_pairs { i } else { mix(seed, "C13.pair", i) % total_pairs };
        let (b, r, s) = pair_of(idx);
        let o = run_pair(&b, &r, s);
        (idx, o)
    });
    let mut stats = Stats::default();
    let mut exit = 0;
    let mut new_violations = 0u64;
    let mut seen_classes: Vec<String> = vec![];
    let mut pair_sigs = std::collections::BTreeSet::new();
    for (idx, o) in &pair_outs {
        stats.merge(&o.stats);
        pair_sigs.insert(*idx);
        if let Outcome::Violated(v) = &o.outcome {
            if seen_classes.contains(&v.class) || new_violations >= 3 {
                continue;
            }
            seen_classes.push(v.class.clone());
            let path = write_replay("C13", &format!("pair{}", idx), o.replay.as_ref().unwrap());
            println!("C13 violation class={} pair={}\n{}", v.class, idx, v.detail);
            println!("VIOLATION property=C13 replay={}", path.display());
            new_violations += 1;
            exit = 1;
        }
    }
    for s in &pair_sigs {
        stats.signatures.insert(*s);
    }
    let compared = stats.counters.get("probe.model_compared").copied().unwrap_or(0);
    // links
    let link_outs = parallel_map(n_links, args.workers, move |i| {
        let s = mix(seed, "C13.link", i);
        let w = gen_link_world(s);
        let g = w.to_group_world();
        let execs = link_execs(s, &g, if thorough { 8 } else { 4 });
        let o = run_link_explicit(&w.to_json(), &execs);
        let refs: usize = w.files.iter().map(|f| f.imports.len() + f.body.iter().filter(|b| matches!(b, Item::Include(..))).count() + f.wxs.len()).sum();
        (fnv(w.to_json()["files"].to_string().as_bytes()), w.files.len() >= 2 && refs >= 1, o)
    });
    let mut link_viol = 0;
    for (i, (sig, nontrivial, o)) in link_outs.iter().enumerate() {
        stats.merge(&o.stats);
        stats.signatures.insert(*sig);
        if *nontrivial && matches!(o.outcome, Outcome::Held) {
            stats.nontrivial_signatures.insert(*sig);
        }
        if let Outcome::Violated(v) = &o.outcome {
            link_viol += 1;
            if seen_classes.contains(&v.class) || new_violations >= 3 {
                continue;
            }
            seen_classes.push(v.class.clone());
            let s = mix(seed, "C13.link", i as u64);
            let w = gen_link_world(s);
            let (w2, e2, v2) = shrink_link(&w, o.exec.clone(), &v.class);
            let mut rv = w2.to_json();
            rv["property"] = json!("C13");
            rv["engine"] = json!("links");
            rv["class"] = json!(v2.class);
            rv["detail"] = json!(v2.detail);
            rv["execs"] = json!(e2.iter().map(group_sim::exec_to_json).collect::<Vec<_>>());
            rv["verif_seed"] = json!(seed.to_string());
            rv["run_index"] = json!(i);
            let path = write_replay("C13", &format!("seed{}-link{}", seed, i), &rv);
            println!("C13 violation class={} link-run={}\n{}", v2.class, i, v2.detail);
            for f in rv["files"].as_array().unwrap() {
                println!("  [{}] {}", f[0].as_str().unwrap_or(""), f[1].as_str().unwrap_or(""));
            }
            println!("VIOLATION property=C13 replay={}", path.display());
            new_violations += 1;
            exit = 1;
        }
    }
    // pairs compared with the model count as non-trivial cases as well
    for (idx, o) in &pair_outs {
        if matches!(o.outcome, Outcome::Held) && o.stats.counters.contains_key("probe.model_compared") {
            stats.nontrivial_signatures.insert(*idx ^ 0x5555_0000_0000_0000);
        }
    }
    let mut samples = vec![];
    for i in 0..3 {
        let (b, r, s) = pair_of(mix(seed, "C13.pair", i) % total_pairs);
        samples.push(json!({"kind": "pair", "referrer": b, "src": r, "with_suffix": s, "resolver_says": model_resolve(&b, &r, "").path}));
    }
    samples.push(json!({"kind": "link world", "world": gen_link_world(mix(seed, "C13.link", 0)).to_json()}));
    write_evidence(EvidenceInput {
        property: "C13",
        tier: &args.tier,
        seed,
        level: "exploration",
        evaluations: n_pairs + n_links,
        rule: RULE,
        samples,
        stats: &stats,
        wall_s: t0.elapsed().as_secs_f64(),
        violations: new_violations,
        known_findings: vec![],
        assumptions: vec![
            "for src spellings with empty segments or `..` above the root the statement fixes no normal form: only self-consistency (queries vs emitted code) is asserted there".into(),
            "a reference to a file that does not exist must render nothing (include) / resolve to nothing (template is)".into(),
            "loader fidelity and empty backends as for C06 (link worlds)".into(),
        ],
        real_vs_stub: json!({
            "real": ["path::resolve / normalize, suffix stripping, Template::direct_dependencies / script_dependencies, proc_gen linking code (I / G / R lookups), TmplGroup insertion APIs", "glass-easel/src runtime executing the bundle (link worlds)"],
            "simulated": ["OS entropy, processes, insertion schedules (group simulator)"],
            "stub": ["the reference resolver/linker is a 40-line model written from the statement"],
        }),
        extra: json!({
            "pairs_total_space": total_pairs,
            "pairs_evaluated": n_pairs,
            "pairs_compared_with_model": compared,
            "pairs_exhaustive": n_pairs == total_pairs,
            "link_worlds": n_links,
            "link_violating_runs": link_viol,
        }),
    });
    println!(
        "C13 {}: pairs={} (of {}; compared with model {}) link_worlds={} roots_rendered={} distinct_nontrivial={} new_violations={} wall={:.1}s",
        args.tier,
        n_pairs,
        total_pairs,
        compared,
        n_links,
        stats.counters.get("probe.roots_rendered").copied().unwrap_or(0),
        stats.nontrivial_signatures.len(),
        new_violations,
        t0.elapsed().as_secs_f64()
    );
    exit
}

fn shrink_link(w: &LinkWorld, exec: Option<GExec>, class: &str) -> (LinkWorld, Vec<GExec>, Violation) {
    let mut cur = w.clone();
    let execs: Vec<GExec> = exec.into_iter().collect();
    let run = |c: &LinkWorld, e: &[GExec]| -> Option<Violation> {
        // indices in execs refer to files by position: only shrink bodies/templates when an exec is kept
        match run_link_explicit(&c.to_json(), e).outcome {
            Outcome::Violated(v) if v.class == class => Some(v),
            _ => None,
        }
    };
    let mut v = run(&cur, &execs).unwrap_or(Violation { class: class.into(), detail: String::new() });
    let mut progress = true;
    let mut tried = 0;
    while progress && tried < 300 {
        progress = false;
        for fi in 0..cur.files.len() {
            for bi in (0..cur.files[fi].body.len()).rev() {
                let mut c = cur.clone();
                // keep Wxs indices valid: only remove body items
                c.files[fi].body.remove(bi);
                tried += 1;
                if let Some(x) = run(&c, &execs) {
                    cur = c;
                    v = x;
                    progress = true;
                }
            }
            for ti in (0..cur.files[fi].templates.len()).rev() {
                let mut c = cur.clone();
                c.files[fi].templates.remove(ti);
                tried += 1;
                if let Some(x) = run(&c, &execs) {
                    cur = c;
                    v = x;
                    progress = true;
                }
            }
            for ii in (0..cur.files[fi].imports.len()).rev() {
                let mut c = cur.clone();
                c.files[fi].imports.remove(ii);
                tried += 1;
                if let Some(x) = run(&c, &execs) {
                    cur = c;
                    v = x;
                    progress = true;
                }
            }
        }
    }
    (cur, execs, v)
}

pub fn replay(v: &Value, path: &str, quiet: bool) -> i32 {
    let out = match v["engine"].as_str().unwrap_or("") {
        "pairs" => run_pair(v["base"].as_str().unwrap_or(""), v["rel"].as_str().unwrap_or(""), v["suffix"].as_u64().unwrap_or(0) as u8).outcome,
        _ => {
            let execs: Vec<GExec> = v["execs"].as_array().map(|a| a.iter().map(group_sim::exec_from_json).collect()).unwrap_or_default();
            run_link_explicit(v, &execs).outcome
        }
    };
    match out {
        Outcome::Violated(x) => {
            if !quiet {
                println!("replay {}: violation class={}\n{}", path, x.class, x.detail);
                println!("VIOLATION property=C13 replay={}", path);
            }
            1
        }
        _ => {
            if !quiet {
                println!("replay {}: no violation on the current tree", path);
            }
            0
        }
    }
}

pub fn determinism_hashes(seed: u64, n: u64, workers: usize) -> Vec<String> {
    parallel_map(n, workers, move |i| {
        let s = mix(seed, "C13.link", i);
        let w = gen_link_world(s);
        let g = w.to_group_world();
        let execs = link_execs(s, &g, 4);
        let o = run_link_explicit(&w.to_json(), &execs);
        format!("{:?}|{:?}", o.stats.counters, matches!(o.outcome, Outcome::Violated(_)))
    })
}

#[allow(dead_code)]
fn unused(_: GOp) {}
