//! Worlds of the runtime-world simulator: template ASTs (printed to WXML for the real compiler),
//! component definitions, initial data, config knobs and the explicit op schedule.

use serde_json::{json, Value};
use std::collections::BTreeSet;

// ---------------------------------------------------------------------------------------------
// concrete-syntax style (varied per file; the AST is the same)

pub const STYLE_SINGLE_QUOTE_ATTRS: u32 = 1;
pub const STYLE_TIGHT_BRACES: u32 = 2;
pub const STYLE_PAIRED_EMPTY: u32 = 4;
pub const STYLE_NEWLINES: u32 = 8;
pub const STYLE_SPACE_BEFORE_CLOSE: u32 = 16;
pub const STYLE_COMMENT_BETWEEN_BRANCHES: u32 = 32;

thread_local! {
    static STYLE: std::cell::Cell<u32> = const { std::cell::Cell::new(0) };
}
fn style(flag: u32) -> bool {
    STYLE.with(|s| s.get() & flag != 0)
}

// ---------------------------------------------------------------------------------------------
// expressions

#[derive(Clone, Debug, PartialEq)]
pub enum ArrItem {
    Item(Expr),
    Hole,
    Spread(Expr),
}

#[derive(Clone, Debug, PartialEq)]
pub enum ObjItem {
    Named(String, Expr),
    Short(String),
    Spread(Expr),
}

#[derive(Clone, Debug, PartialEq)]
pub enum Expr {
    /// a data field or a scope variable, by name
    Id(String),
    Num(String),
    Str(String),
    Bool(bool),
    Null,
    Undef,
    Member(Box<Expr>, String),
    Index(Box<Expr>, Box<Expr>),
    Bin(String, Box<Expr>, Box<Expr>),
    Un(String, Box<Expr>),
    Cond(Box<Expr>, Box<Expr>, Box<Expr>),
    Arr(Vec<ArrItem>),
    Obj(Vec<ObjItem>),
    Call(Box<Expr>, Vec<Expr>),
}

pub fn id(s: &str) -> Expr {
    Expr::Id(s.to_string())
}
pub fn member(e: Expr, f: &str) -> Expr {
    Expr::Member(Box::new(e), f.to_string())
}
pub fn index(e: Expr, i: Expr) -> Expr {
    Expr::Index(Box::new(e), Box::new(i))
}
pub fn bin(op: &str, a: Expr, b: Expr) -> Expr {
    Expr::Bin(op.to_string(), Box::new(a), Box::new(b))
}

impl Expr {
    fn atomic(&self) -> bool {
        matches!(self, Expr::Id(_) | Expr::Num(_) | Expr::Str(_) | Expr::Bool(_) | Expr::Null | Expr::Undef | Expr::Member(..) | Expr::Index(..) | Expr::Arr(_) | Expr::Call(..))
    }
    fn sub(&self, out: &mut String) {
        if self.atomic() {
            self.print(out);
        } else {
            out.push('(');
            self.print(out);
            out.push(')');
        }
    }
    pub fn print(&self, out: &mut String) {
        match self {
            Expr::Id(s) => out.push_str(s),
            Expr::Num(s) => out.push_str(s),
            Expr::Str(s) => {
                // string literals use the quote character the attribute does not use
                let q = if style(STYLE_SINGLE_QUOTE_ATTRS) { '"' } else { '\'' };
                out.push(q);
                out.push_str(s);
                out.push(q);
            }
            Expr::Bool(b) => out.push_str(if *b { "true" } else { "false" }),
            Expr::Null => out.push_str("null"),
            Expr::Undef => out.push_str("undefined"),
            Expr::Member(e, f) => {
                e.sub(out);
                out.push('.');
                out.push_str(f);
            }
            Expr::Index(e, i) => {
                e.sub(out);
                out.push('[');
                i.print(out);
                out.push(']');
            }
            Expr::Bin(op, a, b) => {
                a.sub(out);
                out.push(' ');
                out.push_str(op);
                out.push(' ');
                b.sub(out);
            }
            Expr::Un(op, a) => {
                out.push_str(op);
                if op.chars().all(|c| c.is_alphabetic()) {
                    out.push(' ');
                }
                a.sub(out);
            }
            Expr::Cond(c, a, b) => {
                c.sub(out);
                out.push_str(" ? ");
                a.sub(out);
                out.push_str(" : ");
                b.sub(out);
            }
            Expr::Arr(items) => {
                out.push('[');
                for (i, it) in items.iter().enumerate() {
                    if i > 0 {
                        out.push_str(", ");
                    }
                    match it {
                        ArrItem::Item(e) => e.print(out),
                        ArrItem::Hole => {}
                        ArrItem::Spread(e) => {
                            out.push_str("...");
                            e.sub(out);
                        }
                    }
                }
                if matches!(items.last(), Some(ArrItem::Hole)) {
                    out.push(',');
                }
                out.push(']');
            }
            Expr::Obj(items) => {
                out.push('{');
                for (i, it) in items.iter().enumerate() {
                    if i > 0 {
                        out.push_str(", ");
                    }
                    match it {
                        ObjItem::Named(k, e) => {
                            out.push_str(k);
                            out.push_str(": ");
                            e.print(out);
                        }
                        ObjItem::Short(k) => out.push_str(k),
                        ObjItem::Spread(e) => {
                            out.push_str("...");
                            e.sub(out);
                        }
                    }
                }
                out.push('}');
            }
            Expr::Call(f, args) => {
                f.sub(out);
                out.push('(');
                for (i, a) in args.iter().enumerate() {
                    if i > 0 {
                        out.push_str(", ");
                    }
                    a.print(out);
                }
                out.push(')');
            }
        }
    }
    pub fn to_src(&self) -> String {
        let mut s = String::new();
        self.print(&mut s);
        s
    }
    pub fn children(&self) -> Vec<&Expr> {
        match self {
            Expr::Member(e, _) | Expr::Un(_, e) => vec![e],
            Expr::Index(a, b) | Expr::Bin(_, a, b) => vec![a, b],
            Expr::Cond(a, b, c) => vec![a, b, c],
            Expr::Arr(items) => items.iter().filter_map(|i| match i {
                ArrItem::Item(e) | ArrItem::Spread(e) => Some(e),
                ArrItem::Hole => None,
            }).collect(),
            Expr::Obj(items) => items.iter().filter_map(|i| match i {
                ObjItem::Named(_, e) | ObjItem::Spread(e) => Some(e),
                ObjItem::Short(_) => None,
            }).collect(),
            Expr::Call(f, args) => {
                let mut v: Vec<&Expr> = vec![f];
                v.extend(args.iter());
                v
            }
            _ => vec![],
        }
    }
    /// identifiers read by the expression that are not bound by `scope`
    pub fn free_ids(&self, scope: &[String], out: &mut BTreeSet<String>) {
        match self {
            Expr::Id(s) => {
                if !scope.iter().any(|x| x == s) {
                    out.insert(s.clone());
                }
            }
            Expr::Obj(items) => {
                for it in items {
                    match it {
                        ObjItem::Short(k) => {
                            if !scope.iter().any(|x| x == k) {
                                out.insert(k.clone());
                            }
                        }
                        ObjItem::Named(_, e) | ObjItem::Spread(e) => e.free_ids(scope, out),
                    }
                }
            }
            _ => {
                for c in self.children() {
                    c.free_ids(scope, out);
                }
            }
        }
    }
    pub fn size(&self) -> usize {
        1 + self.children().iter().map(|c| c.size()).sum::<usize>()
    }
    /// feature tags of this expression (for known-finding signatures and evidence)
    pub fn tags(&self, out: &mut BTreeSet<String>) {
        match self {
            Expr::Member(e, _) => {
                if matches!(**e, Expr::Obj(_)) {
                    out.insert("member_of_object_literal".into());
                }
                if matches!(**e, Expr::Arr(_)) {
                    out.insert("member_of_array_literal".into());
                }
                if matches!(**e, Expr::Bin(..) | Expr::Cond(..) | Expr::Str(_) | Expr::Call(..)) {
                    out.insert("index_of_pathless_object".into());
                }
            }
            Expr::Index(e, _) => {
                out.insert("dynamic_index".into());
                if matches!(**e, Expr::Obj(_)) {
                    out.insert("member_of_object_literal".into());
                }
                if matches!(**e, Expr::Arr(_)) {
                    out.insert("member_of_array_literal".into());
                }
                if matches!(**e, Expr::Bin(..) | Expr::Cond(..) | Expr::Str(_) | Expr::Call(..)) {
                    out.insert("index_of_pathless_object".into());
                }
            }
            Expr::Arr(items) => {
                out.insert("array_literal".into());
                if items.iter().any(|i| matches!(i, ArrItem::Hole)) {
                    out.insert("array_hole".into());
                }
                if items.iter().any(|i| matches!(i, ArrItem::Spread(_))) {
                    out.insert("array_spread".into());
                }
            }
            Expr::Obj(items) => {
                out.insert("object_literal".into());
                if items.iter().any(|i| matches!(i, ObjItem::Spread(_))) {
                    out.insert("object_spread".into());
                }
                if items.iter().any(|i| matches!(i, ObjItem::Short(_))) {
                    out.insert("object_shorthand".into());
                }
            }
            Expr::Cond(..) => {
                out.insert("conditional".into());
            }
            Expr::Call(..) => {
                out.insert("call".into());
            }
            Expr::Bin(op, ..) => {
                out.insert(format!("op_{}", match op.as_str() {
                    "+" => "plus",
                    "-" => "minus",
                    "*" => "mul",
                    "&&" => "and",
                    "||" => "or",
                    "??" => "nullish",
                    "===" | "!==" | "==" | "!=" => "eq",
                    "<" | ">" | "<=" | ">=" => "cmp",
                    _ => "other",
                }));
            }
            Expr::Un(..) => {
                out.insert("unary".into());
            }
            _ => {}
        }
        for c in self.children() {
            c.tags(out);
        }
    }
}

// ---------------------------------------------------------------------------------------------
// nodes

#[derive(Clone, Debug, PartialEq)]
pub enum TextPart {
    Lit(String),
    Bind(Expr),
}

#[derive(Clone, Debug, PartialEq)]
pub enum AttrVal {
    None,
    Static(String),
    Bind(Expr),
    Mixed(Vec<TextPart>),
}

#[derive(Clone, Debug, PartialEq)]
pub struct Attr {
    pub name: String,
    pub val: AttrVal,
}

#[derive(Clone, Debug, PartialEq)]
pub enum Node {
    Text(Vec<TextPart>),
    El { tag: String, attrs: Vec<Attr>, children: Vec<Node> },
    /// `on`: None = <block>, Some(tag) = the directive sits on an element of that tag
    If { branches: Vec<(Expr, Vec<Node>)>, else_: Option<Vec<Node>>, on: Option<String> },
    For { list: Expr, key: Option<String>, item: Option<String>, index: Option<String>, children: Vec<Node>, on: Option<String> },
    Block(Vec<Node>),
    TemplateIs { target: AttrVal, data: Option<Expr> },
    Include(String),
    Slot { name: AttrVal, values: Vec<Attr> },
    Comment(String),
}

fn open_brace(e: &Expr, out: &mut String) {
    // `{{{` would read as a binding that starts with an object literal only with a space
    if style(STYLE_TIGHT_BRACES) && !matches!(e, Expr::Obj(_)) && !matches!(e, Expr::Member(b, _) | Expr::Index(b, _) if matches!(**b, Expr::Obj(_))) {
        out.push_str("{{");
    } else {
        out.push_str("{{ ");
    }
}
fn close_brace(out: &mut String) {
    if style(STYLE_TIGHT_BRACES) && !out.ends_with('}') {
        out.push_str("}}");
    } else {
        out.push_str(" }}");
    }
}
fn quote() -> char {
    if style(STYLE_SINGLE_QUOTE_ATTRS) {
        '\''
    } else {
        '"'
    }
}

fn print_parts(parts: &[TextPart], out: &mut String) {
    for p in parts {
        match p {
            TextPart::Lit(s) => out.push_str(s),
            TextPart::Bind(e) => {
                open_brace(e, out);
                e.print(out);
                close_brace(out);
            }
        }
    }
}

fn print_attr_val(v: &AttrVal, out: &mut String) {
    match v {
        AttrVal::None => {}
        AttrVal::Static(s) => {
            out.push('=');
            out.push(quote());
            out.push_str(s);
            out.push(quote());
        }
        AttrVal::Bind(e) => {
            out.push('=');
            out.push(quote());
            open_brace(e, out);
            e.print(out);
            close_brace(out);
            out.push(quote());
        }
        AttrVal::Mixed(parts) => {
            out.push('=');
            out.push(quote());
            print_parts(parts, out);
            out.push(quote());
        }
    }
}

fn print_attrs(attrs: &[Attr], out: &mut String) {
    for a in attrs {
        out.push(' ');
        out.push_str(&a.name);
        print_attr_val(&a.val, out);
    }
}

pub fn print_nodes(nodes: &[Node], out: &mut String) {
    for (i, n) in nodes.iter().enumerate() {
        // whitespace-only text between two elements is dropped by the parser
        if i > 0 && style(STYLE_NEWLINES) && !matches!(n, Node::Text(_)) && !matches!(nodes[i - 1], Node::Text(_)) {
            out.push_str("\n  ");
        }
        print_node(n, out);
    }
}

fn print_node(n: &Node, out: &mut String) {
    match n {
        Node::Text(parts) => print_parts(parts, out),
        Node::El { tag, attrs, children } => {
            out.push('<');
            out.push_str(tag);
            print_attrs(attrs, out);
            if children.is_empty() && !style(STYLE_PAIRED_EMPTY) {
                if style(STYLE_SPACE_BEFORE_CLOSE) {
                    out.push(' ');
                }
                out.push_str("/>");
            } else {
                out.push('>');
                print_nodes(children, out);
                out.push_str("</");
                out.push_str(tag);
                out.push('>');
            }
        }
        Node::If { branches, else_, on } => {
            let tag = on.clone().unwrap_or_else(|| "block".into());
            for (i, (c, ch)) in branches.iter().enumerate() {
                if i > 0 && style(STYLE_COMMENT_BETWEEN_BRANCHES) {
                    out.push_str("<!-- between branches -->");
                }
                out.push('<');
                out.push_str(&tag);
                out.push_str(if i == 0 { " wx:if=\"{{ " } else { " wx:elif=\"{{ " });
                c.print(out);
                out.push_str(" }}\">");
                print_nodes(ch, out);
                out.push_str("</");
                out.push_str(&tag);
                out.push('>');
            }
            if let Some(ch) = else_ {
                if style(STYLE_COMMENT_BETWEEN_BRANCHES) {
                    out.push_str("\n<!-- before else -->\n");
                }
                out.push('<');
                out.push_str(&tag);
                out.push_str(" wx:else>");
                print_nodes(ch, out);
                out.push_str("</");
                out.push_str(&tag);
                out.push('>');
            }
        }
        Node::For { list, key, item, index, children, on } => {
            let tag = on.clone().unwrap_or_else(|| "block".into());
            out.push('<');
            out.push_str(&tag);
            out.push_str(" wx:for=\"{{ ");
            list.print(out);
            out.push_str(" }}\"");
            if let Some(k) = key {
                out.push_str(" wx:key=\"");
                out.push_str(k);
                out.push('"');
            }
            if let Some(i) = item {
                out.push_str(" wx:for-item=\"");
                out.push_str(i);
                out.push('"');
            }
            if let Some(i) = index {
                out.push_str(" wx:for-index=\"");
                out.push_str(i);
                out.push('"');
            }
            out.push('>');
            print_nodes(children, out);
            out.push_str("</");
            out.push_str(&tag);
            out.push('>');
        }
        Node::Block(ch) => {
            out.push_str("<block>");
            print_nodes(ch, out);
            out.push_str("</block>");
        }
        Node::TemplateIs { target, data } => {
            out.push_str("<template is");
            print_attr_val(target, out);
            if let Some(d) = data {
                // `data="{{ a, b: c, ...d }}"`: the object literal's braces merge with the binding's
                out.push_str(" data=\"{{ ");
                if let Expr::Obj(items) = d {
                    let mut s = String::new();
                    Expr::Obj(items.clone()).print(&mut s);
                    out.push_str(&s[1..s.len() - 1]);
                } else {
                    d.print(out);
                }
                out.push_str(" }}\"");
            }
            out.push_str("/>");
        }
        Node::Include(src) => {
            out.push_str("<include src=\"");
            out.push_str(src);
            out.push_str("\"/>");
        }
        Node::Slot { name, values } => {
            out.push_str("<slot");
            if *name != AttrVal::None {
                out.push_str(" name");
                print_attr_val(name, out);
            }
            print_attrs(values, out);
            out.push_str("/>");
        }
        Node::Comment(s) => {
            out.push_str("<!--");
            out.push_str(s);
            out.push_str("-->");
        }
    }
}

// ---------------------------------------------------------------------------------------------
// files, components, world

#[derive(Clone, Debug, PartialEq, Default)]
pub struct TFile {
    pub path: String,
    pub imports: Vec<String>,
    pub wxs_inline: Vec<(String, String)>,
    pub wxs_ext: Vec<(String, String)>,
    pub templates: Vec<(String, Vec<Node>)>,
    pub body: Vec<Node>,
    /// fixed source (catalogue components); when set, the fields above are ignored
    pub raw: Option<String>,
    /// concrete-syntax style flags (STYLE_*)
    pub style: u32,
}

impl TFile {
    pub fn to_wxml(&self) -> String {
        if let Some(r) = &self.raw {
            return r.clone();
        }
        STYLE.with(|st| st.set(self.style));
        let s = self.to_wxml_inner();
        STYLE.with(|st| st.set(0));
        s
    }
    fn to_wxml_inner(&self) -> String {
        let mut s = String::new();
        for i in &self.imports {
            s.push_str(&format!("<import src=\"{}\"/>", i));
        }
        for (m, code) in &self.wxs_inline {
            s.push_str(&format!("<wxs module=\"{}\">{}</wxs>", m, code));
        }
        for (m, src) in &self.wxs_ext {
            s.push_str(&format!("<wxs module=\"{}\" src=\"{}\"/>", m, src));
        }
        for (name, body) in &self.templates {
            s.push_str(&format!("<template name=\"{}\">", name));
            print_nodes(body, &mut s);
            s.push_str("</template>");
        }
        print_nodes(&self.body, &mut s);
        s
    }
    pub fn module_names(&self) -> Vec<String> {
        self.wxs_inline.iter().map(|x| x.0.clone()).chain(self.wxs_ext.iter().map(|x| x.0.clone())).collect()
    }
}

#[derive(Clone, Debug, PartialEq)]
pub struct Config {
    pub update_mode: String,
    pub backend: String,
    pub data_deep_copy: String,
    pub prop_deep_copy: String,
}

impl Default for Config {
    fn default() -> Self {
        Config { update_mode: String::new(), backend: "composed".into(), data_deep_copy: String::new(), prop_deep_copy: String::new() }
    }
}

#[derive(Clone, Debug, PartialEq)]
pub struct World {
    pub files: Vec<TFile>,
    pub scripts: Vec<(String, String)>,
    /// component definitions as handed to the executor
    pub components: Vec<Value>,
    pub data: Value,
    pub config: Config,
    pub schedule: Vec<Value>,
    /// list paths (with "*" wildcards) that some binding reads by index outside a loop over them
    pub indexed_lists: Vec<Vec<String>>,
    /// values of script members that are not functions (for C11's script-path clause)
    pub script_values: Value,
    /// path of the root component's template file
    pub root_path: String,
}

impl World {
    pub fn sources(&self) -> Vec<(String, String)> {
        self.files.iter().map(|f| (f.path.clone(), f.to_wxml())).collect()
    }
    pub fn root_file(&self) -> &TFile {
        self.files.iter().find(|f| f.path == self.root_path).expect("root file")
    }
    pub fn config_json(&self) -> Value {
        let mut c = json!({"backend": self.config.backend});
        if !self.config.update_mode.is_empty() {
            c["updateMode"] = json!(self.config.update_mode);
        }
        if !self.config.data_deep_copy.is_empty() {
            c["dataDeepCopy"] = json!(self.config.data_deep_copy);
        }
        if !self.config.prop_deep_copy.is_empty() {
            c["propertyPassingDeepCopy"] = json!(self.config.prop_deep_copy);
        }
        c
    }
}

// ---------------------------------------------------------------------------------------------
// analysis: which top-level fields sit in positions the binding map cannot reach (C07's 2nd clause)

fn expr_fields(e: &Expr, scope: &[String], out: &mut BTreeSet<String>) {
    e.free_ids(scope, out);
}
fn parts_fields(parts: &[TextPart], scope: &[String], out: &mut BTreeSet<String>) {
    for p in parts {
        if let TextPart::Bind(e) = p {
            expr_fields(e, scope, out);
        }
    }
}
fn attrval_fields(v: &AttrVal, scope: &[String], out: &mut BTreeSet<String>) {
    match v {
        AttrVal::Bind(e) => expr_fields(e, scope, out),
        AttrVal::Mixed(p) => parts_fields(p, scope, out),
        _ => {}
    }
}

/// Collect fields used in `nodes`. `dynamic` = we are inside a subtree whose instances are not
/// unique (if / for / template-is / include / dynamic-slot content). Fields found while `dynamic`
/// and fields in structural positions go to `unreachable`; all fields go to `all`.
pub fn collect_fields(nodes: &[Node], scope: &mut Vec<String>, dynamic: bool, all: &mut BTreeSet<String>, unreachable: &mut BTreeSet<String>, includes: &mut Vec<String>) {
    for n in nodes {
        match n {
            Node::Text(parts) => {
                let mut f = BTreeSet::new();
                parts_fields(parts, scope, &mut f);
                if dynamic {
                    unreachable.extend(f.iter().cloned());
                }
                all.extend(f);
            }
            Node::El { tag, attrs, children } => {
                let mut has_slot_values = false;
                // attributes of a virtual node (`<block slot=..>`) are structural positions
                let structural = tag == "block";
                for a in attrs {
                    let mut f = BTreeSet::new();
                    attrval_fields(&a.val, scope, &mut f);
                    if dynamic || structural {
                        unreachable.extend(f.iter().cloned());
                    }
                    all.extend(f);
                    if a.name.starts_with("slot:") {
                        has_slot_values = true;
                    }
                }
                let mut pushed = 0;
                if has_slot_values {
                    for a in attrs {
                        if let Some(nm) = a.name.strip_prefix("slot:") {
                            let local = match &a.val {
                                AttrVal::Static(s) if !s.is_empty() => s.clone(),
                                _ => nm.to_string(),
                            };
                            scope.push(local);
                            pushed += 1;
                        }
                    }
                }
                // content that uses slot values is instantiated per slot of a dynamic-slots child
                collect_fields(children, scope, dynamic || has_slot_values, all, unreachable, includes);
                for _ in 0..pushed {
                    scope.pop();
                }
            }
            Node::If { branches, else_, .. } => {
                for (c, ch) in branches {
                    let mut f = BTreeSet::new();
                    expr_fields(c, scope, &mut f);
                    unreachable.extend(f.iter().cloned());
                    all.extend(f);
                    collect_fields(ch, scope, true, all, unreachable, includes);
                }
                if let Some(ch) = else_ {
                    collect_fields(ch, scope, true, all, unreachable, includes);
                }
            }
            Node::For { list, item, index, children, .. } => {
                let mut f = BTreeSet::new();
                expr_fields(list, scope, &mut f);
                unreachable.extend(f.iter().cloned());
                all.extend(f);
                scope.push(item.clone().unwrap_or_else(|| "item".into()));
                scope.push(index.clone().unwrap_or_else(|| "index".into()));
                collect_fields(children, scope, true, all, unreachable, includes);
                scope.pop();
                scope.pop();
            }
            Node::Block(ch) => collect_fields(ch, scope, dynamic, all, unreachable, includes),
            Node::TemplateIs { target, data } => {
                let mut f = BTreeSet::new();
                attrval_fields(target, scope, &mut f);
                if let Some(d) = data {
                    expr_fields(d, scope, &mut f);
                }
                unreachable.extend(f.iter().cloned());
                all.extend(f);
            }
            Node::Include(src) => includes.push(src.clone()),
            Node::Slot { name, values } => {
                let mut f = BTreeSet::new();
                attrval_fields(name, scope, &mut f);
                unreachable.extend(f.iter().cloned());
                all.extend(f.iter().cloned());
                for a in values {
                    let mut f = BTreeSet::new();
                    attrval_fields(&a.val, scope, &mut f);
                    // (slot values have updaters of their own; the other attributes of a <slot>
                    // are updated with the slot as a whole)
                    if dynamic || !matches!(a.name.as_str(), "sv" | "si" | "sl") {
                        unreachable.extend(f.iter().cloned());
                    }
                    all.extend(f);
                }
            }
            Node::Comment(_) => {}
        }
    }
}

/// Fields of the root template that are used somewhere the binding map cannot reach.
pub fn unreachable_fields(w: &World) -> Vec<String> {
    let root = w.root_file();
    if root.raw.is_some() {
        return vec![];
    }
    let mut scope: Vec<String> = root.module_names();
    let mut all = BTreeSet::new();
    let mut unreachable = BTreeSet::new();
    let mut includes = vec![];
    collect_fields(&root.body, &mut scope, false, &mut all, &mut unreachable, &mut includes);
    // everything an included file reads is read from the includer's data, out of the map's reach
    let mut seen = BTreeSet::new();
    while let Some(src) = includes.pop() {
        let p = src.trim_start_matches('/').trim_end_matches(".wxml").to_string();
        if !seen.insert(p.clone()) {
            continue;
        }
        if let Some(f) = w.files.iter().find(|f| f.path == p) {
            let mut sc: Vec<String> = f.module_names();
            let mut a2 = BTreeSet::new();
            let mut u2 = BTreeSet::new();
            collect_fields(&f.body, &mut sc, true, &mut a2, &mut u2, &mut includes);
            unreachable.extend(a2);
        }
    }
    unreachable.into_iter().collect()
}

// ---------------------------------------------------------------------------------------------
// feature tags of a world (minimised worlds are matched against known findings by these)

fn node_tags(nodes: &[Node], out: &mut BTreeSet<String>, in_for: bool) {
    for n in nodes {
        match n {
            Node::Text(parts) => {
                for p in parts {
                    if let TextPart::Bind(e) = p {
                        out.insert("text_binding".into());
                        e.tags(out);
                    }
                }
            }
            Node::El { tag, attrs, children } => {
                out.insert(format!("el_{}", tag));
                for a in attrs {
                    let fam = a.name.split(|c| c == ':' || c == '-').next().unwrap_or("").to_string();
                    out.insert(format!("attr_{}", if a.name.contains(':') || a.name.starts_with("data-") { fam } else { a.name.clone() }));
                    match &a.val {
                        AttrVal::Bind(e) => e.tags(out),
                        AttrVal::Mixed(p) => {
                            for x in p {
                                if let TextPart::Bind(e) = x {
                                    e.tags(out);
                                }
                            }
                        }
                        _ => {}
                    }
                    if in_for && a.name.starts_with("model:") {
                        out.insert("model_in_for".into());
                    }
                }
                node_tags(children, out, in_for);
            }
            Node::If { branches, else_, .. } => {
                out.insert("if".into());
                for (c, ch) in branches {
                    c.tags(out);
                    node_tags(ch, out, in_for);
                }
                if let Some(ch) = else_ {
                    node_tags(ch, out, in_for);
                }
            }
            Node::For { list, key, children, .. } => {
                out.insert("for".into());
                out.insert(match key.as_deref() {
                    None => "for_no_key".into(),
                    Some("*this") => "for_key_this".into(),
                    Some(_) => "for_key_field".to_string(),
                });
                list.tags(out);
                node_tags(children, out, true);
            }
            Node::Block(ch) => node_tags(ch, out, in_for),
            Node::TemplateIs { target, data } => {
                out.insert("template_is".into());
                if let AttrVal::Bind(e) = target {
                    out.insert("template_is_dynamic".into());
                    e.tags(out);
                }
                if let Some(d) = data {
                    d.tags(out);
                }
            }
            Node::Include(_) => {
                out.insert("include".into());
            }
            Node::Slot { .. } => {
                out.insert("slot".into());
            }
            Node::Comment(_) => {}
        }
    }
}

/// `slot:` value references on an element that is not a direct child of the component whose slot
/// it fills (it sits under a wx:if / wx:for / block inside the component's children)
fn slot_ref_wrapper_tags(nodes: &[Node], in_comp_children: bool, wrapped: bool, out: &mut BTreeSet<String>) {
    const COMPS: &[&str] = &["plain", "styled", "multi", "multi2", "mchild", "mnest", "mobs", "sslots", "dyn", "dynnk", "dynt", "dynn", "dynself"];
    for n in nodes {
        match n {
            Node::El { tag, attrs, children } => {
                if in_comp_children && wrapped && attrs.iter().any(|a| a.name.starts_with("slot:")) {
                    out.insert("slot_ref_under_wrapper".into());
                }
                let is_comp = COMPS.contains(&tag.as_str());
                slot_ref_wrapper_tags(children, is_comp, false, out);
            }
            Node::If { branches, else_, .. } => {
                for (_, ch) in branches {
                    slot_ref_wrapper_tags(ch, in_comp_children, in_comp_children, out);
                }
                if let Some(ch) = else_ {
                    slot_ref_wrapper_tags(ch, in_comp_children, in_comp_children, out);
                }
            }
            Node::For { children, .. } => slot_ref_wrapper_tags(children, in_comp_children, in_comp_children, out),
            Node::Block(ch) => slot_ref_wrapper_tags(ch, in_comp_children, in_comp_children, out),
            _ => {}
        }
    }
}

pub fn world_tags(w: &World) -> BTreeSet<String> {
    let mut out = BTreeSet::new();
    for f in &w.files {
        if f.raw.is_none() {
            slot_ref_wrapper_tags(&f.body, false, false, &mut out);
        }
    }
    for f in &w.files {
        if f.raw.is_some() {
            continue;
        }
        node_tags(&f.body, &mut out, false);
        for (_, b) in &f.templates {
            node_tags(b, &mut out, false);
        }
    }
    for c in &w.components {
        if let Some(is) = c["is"].as_str() {
            if is != "root" {
                out.insert(format!("comp_{}", is));
            }
        }
    }
    for op in &w.schedule {
        if let Some(k) = op[0].as_str() {
            out.insert(format!("op_{}", k));
        }
    }
    if !w.config.update_mode.is_empty() {
        out.insert(format!("update_mode_{}", w.config.update_mode));
    }
    out
}

// ---------------------------------------------------------------------------------------------
// JSON (replay files are explicit worlds: they do not need the generator)

pub fn world_to_json(w: &World) -> Value {
    json!({
        "sources": w.sources().iter().map(|(p, s)| json!([p, s])).collect::<Vec<_>>(),
        "scripts": w.scripts.iter().map(|(p, s)| json!([p, s])).collect::<Vec<_>>(),
        "components": w.components,
        "data": w.data,
        "config": w.config_json(),
        "schedule": w.schedule,
        "indexed_lists": w.indexed_lists,
        "root_path": w.root_path,
        "script_values": w.script_values,
        "unreachable_fields": unreachable_fields(w),
        "tags": world_tags(w).into_iter().collect::<Vec<_>>(),
    })
}
