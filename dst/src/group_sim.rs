//! Engine A — the group simulator (C20, and the query half of C13).
//!
//! A "process" is a fresh thread with its own simulated entropy stream (entropy.rs); a schedule is
//! an explicit list of group-API calls. Each run executes one canonical schedule (one group,
//! sorted insertion order, entropy stream 0, perfect sink) and m perturbed schedules, and compares
//! every emit API byte-wise.

use crate::common::*;
use crate::entropy;
use crate::rng::{fnv, Rng};
use glass_easel_stylesheet_compiler::{StyleSheetOptions, StyleSheetTransformer};
use glass_easel_template_compiler::TmplGroup;
use serde_json::{json, Value};
use std::io;

// ---------------------------------------------------------------------------------------------
// world

#[derive(Clone, Debug)]
pub struct GFile {
    pub path: String,
    pub chunks: Vec<String>,
    /// an earlier content of the same path that is overwritten before emission
    pub old_chunks: Option<Vec<String>>,
}
impl GFile {
    pub fn src(&self) -> String {
        self.chunks.concat()
    }
    pub fn old_src(&self) -> Option<String> {
        self.old_chunks.as_ref().map(|c| c.concat())
    }
}

#[derive(Clone, Debug)]
pub struct GCss {
    pub path: String,
    pub rules: Vec<String>,
    pub class_prefix: Option<String>,
    pub class_prefix_sign: Option<String>,
    pub rpx_ratio: f32,
    pub import_sign: Option<String>,
    pub convert_host: bool,
    pub host_is: Option<String>,
}
impl GCss {
    fn options(&self) -> StyleSheetOptions {
        StyleSheetOptions {
            class_prefix: self.class_prefix.clone(),
            class_prefix_sign: self.class_prefix_sign.clone(),
            rpx_ratio: self.rpx_ratio,
            import_sign: self.import_sign.clone(),
            convert_host: self.convert_host,
            host_is: self.host_is.clone(),
        }
    }
}

#[derive(Clone, Debug, Default)]
pub struct GroupWorld {
    pub files: Vec<GFile>,
    pub scripts: Vec<(String, String)>,
    pub extra_runtime: Option<String>,
    /// (file index, module name, new content)
    pub inline_edits: Vec<(usize, String, String)>,
    pub dev: bool,
    pub css: Vec<GCss>,
}

#[derive(Clone, Debug, PartialEq)]
pub enum GOp {
    AddTmpl { g: usize, f: usize, old: bool },
    AddScript { g: usize, s: usize },
    /// a stale stand-in for file f / script s that a later add or import must replace
    AddStaleTmpl { g: usize, f: usize },
    AddStaleScript { g: usize, s: usize },
    /// remove file f / script s from group g (it is added again later in the same stream)
    RemoveTmpl { g: usize, f: usize },
    RemoveScript { g: usize, s: usize },
    SetExtra { g: usize },
    SetInline { g: usize, e: usize },
    Import { into: usize, from: usize },
    /// call the emit APIs in the middle of the history and throw the result away
    Emit { g: usize },
}

#[derive(Clone, Debug, PartialEq)]
pub enum SinkFault {
    /// accept at most n bytes of this write call
    Short(usize),
    /// ErrorKind::Interrupted (must be retried by the writer)
    Eintr,
    /// hard error
    Fail,
}

#[derive(Clone, Debug)]
pub struct GExec {
    pub entropy: u64,
    pub dev_flags: Vec<bool>,
    pub ops: Vec<GOp>,
    /// faults applied to successive write() calls of every sink (cycled per sink)
    pub sink_plan: Vec<SinkFault>,
    /// order (with repeats) in which the stylesheets are transformed inside this process; empty =
    /// each once, in world order. The result kept for a sheet is that of its last transform.
    pub css_order: Vec<usize>,
}

// ---------------------------------------------------------------------------------------------
// faulty sink

pub struct FaultySink<'a> {
    pub data: Vec<u8>,
    plan: &'a [SinkFault],
    at: usize,
    pub fired_short: u64,
    pub fired_eintr: u64,
    pub fired_fail: u64,
}
impl<'a> FaultySink<'a> {
    pub fn new(plan: &'a [SinkFault]) -> Self {
        FaultySink { data: vec![], plan, at: 0, fired_short: 0, fired_eintr: 0, fired_fail: 0 }
    }
}
impl<'a> io::Write for FaultySink<'a> {
    fn write(&mut self, buf: &[u8]) -> io::Result<usize> {
        let fault = if self.at < self.plan.len() { Some(&self.plan[self.at]) } else { None };
        self.at += 1;
        match fault {
            Some(SinkFault::Eintr) => {
                self.fired_eintr += 1;
                Err(io::Error::new(io::ErrorKind::Interrupted, "simulated EINTR"))
            }
            Some(SinkFault::Fail) => {
                self.fired_fail += 1;
                Err(io::Error::new(io::ErrorKind::Other, "simulated sink failure"))
            }
            Some(SinkFault::Short(n)) if *n < buf.len() && !buf.is_empty() => {
                self.fired_short += 1;
                let n = (*n).max(1);
                self.data.extend_from_slice(&buf[..n]);
                Ok(n)
            }
            _ => {
                self.data.extend_from_slice(buf);
                Ok(buf.len())
            }
        }
    }
    fn flush(&mut self) -> io::Result<()> {
        Ok(())
    }
}

// ---------------------------------------------------------------------------------------------
// execution

pub type Emission = Vec<(String, Vec<u8>)>;

fn emit_all(g: &TmplGroup, paths: &[String]) -> Emission {
    let mut out: Emission = vec![];
    let err = |e: glass_easel_template_compiler::TmplError| format!("ERR:{}", e.message).into_bytes();
    for p in paths {
        out.push((format!("get_tmpl_gen_object({})", p), g.get_tmpl_gen_object(p).map(String::into_bytes).unwrap_or_else(err)));
        out.push((format!("stringify_tmpl({})", p), g.stringify_tmpl(p).unwrap_or_else(|| "NONE".into()).into_bytes()));
        let mut d: Vec<String> = g.direct_dependencies(p).map(|i| i.collect()).unwrap_or_default();
        d.sort();
        out.push((format!("direct_dependencies({})", p), d.join("\n").into_bytes()));
        let mut d: Vec<String> = g.script_dependencies(p).map(|i| i.collect()).unwrap_or_default();
        d.sort();
        out.push((format!("script_dependencies({})", p), d.join("\n").into_bytes()));
        let d: Vec<String> = g.inline_script_module_names(p).map(|i| i.map(String::from).collect()).unwrap_or_default();
        out.push((format!("inline_script_module_names({})", p), d.join("\n").into_bytes()));
    }
    out.push(("get_tmpl_gen_object_groups".into(), g.get_tmpl_gen_object_groups().map(String::into_bytes).unwrap_or_else(err)));
    out.push(("get_wx_gen_object_groups".into(), g.get_wx_gen_object_groups().map(String::into_bytes).unwrap_or_else(err)));
    out.push(("get_runtime_string".into(), g.get_runtime_string().into_bytes()));
    out.push(("export_globals".into(), g.export_globals().map(String::into_bytes).unwrap_or_else(err)));
    out.push(("export_all_scripts".into(), g.export_all_scripts().map(String::into_bytes).unwrap_or_else(err)));
    out.push(("len".into(), g.len().to_string().into_bytes()));
    out
}

pub struct ExecResult {
    pub emission: Emission,
    /// hash of the iteration orders observed through list_template_trees() and through a probe
    /// HashMap owned by the harness
    pub order_hash: u64,
    pub css: Vec<CssResult>,
}

pub struct CssResult {
    pub name: String,
    pub write_ok: bool,
    pub data: Vec<u8>,
    pub fired: (u64, u64, u64),
}

fn run_css(world: &GroupWorld, sink_plan: &[SinkFault], order: &[usize]) -> Vec<CssResult> {
    // transforms earlier in the same simulated process must not influence later ones
    let natural: Vec<usize> = (0..world.css.len()).collect();
    let order: Vec<usize> = if order.is_empty() { natural.clone() } else { order.iter().copied().filter(|i| *i < world.css.len()).chain(natural.iter().copied().filter(|i| !order.contains(i))).collect() };
    let mut per_sheet: Vec<Vec<CssResult>> = world.css.iter().map(|_| vec![]).collect();
    for i in order {
        per_sheet[i] = run_css_one(&world.css[i], sink_plan);
    }
    per_sheet.into_iter().flatten().collect()
}

fn run_css_one(c: &GCss, sink_plan: &[SinkFault]) -> Vec<CssResult> {
    let mut out = vec![];
    {
        let css = c.rules.concat();
        // normal + low-priority output, each through the faulty sink; then both source maps
        let t = StyleSheetTransformer::from_css(&c.path, &css, c.options());
        let (normal, low) = t.output_and_low_priority_output();
        for (label, o) in [("normal", normal), ("low", low)] {
            let mut sink = FaultySink::new(sink_plan);
            let r = o.write(&mut sink);
            out.push(CssResult {
                name: format!("css({}).{}.write", c.path, label),
                write_ok: r.is_ok(),
                fired: (sink.fired_short, sink.fired_eintr, sink.fired_fail),
                data: sink.data,
            });
            let mut s = String::new();
            let r2 = o.write_str(&mut s);
            out.push(CssResult { name: format!("css({}).{}.write_str", c.path, label), write_ok: r2.is_ok(), fired: (0, 0, 0), data: s.into_bytes() });
            let mut sink = FaultySink::new(sink_plan);
            let r = o.write_source_map(&mut sink);
            out.push(CssResult {
                name: format!("css({}).{}.source_map", c.path, label),
                write_ok: r.is_ok(),
                fired: (sink.fired_short, sink.fired_eintr, sink.fired_fail),
                data: sink.data,
            });
        }
    }
    out
}

fn execute_in_thread(world: &GroupWorld, exec: &GExec) -> ExecResult {
    let n_groups = exec.dev_flags.len().max(1);
    let mut groups: Vec<TmplGroup> = (0..n_groups)
        .map(|i| if *exec.dev_flags.get(i).unwrap_or(&false) { TmplGroup::new_dev() } else { TmplGroup::new() })
        .collect();
    let mut paths: Vec<String> = world.files.iter().map(|f| f.path.clone()).collect();
    paths.sort();
    paths.dedup();
    for op in &exec.ops {
        match op {
            GOp::AddTmpl { g, f, old } => {
                let file = &world.files[*f];
                let src = if *old { file.old_src().unwrap_or_else(|| file.src()) } else { file.src() };
                groups[*g].add_tmpl(&file.path, &src);
            }
            GOp::AddScript { g, s } => {
                let (p, c) = &world.scripts[*s];
                groups[*g].add_script(p, c);
            }
            GOp::AddStaleTmpl { g, f } => {
                // (every other stale stand-in carries an inline script the final version may not have)
                let stale = if *f % 2 == 0 {
                    "<wxs module=\"stale_mod\">exports.x = function(){ return 'stale' }</wxs><view class=\"stale {{zz}}\">{{ stale_mod.x() }}</view>"
                } else {
                    "<view class=\"stale {{zz}}\">stale {{yy}}</view><template name=\"stale\"/>"
                };
                groups[*g].add_tmpl(&world.files[*f].path, stale);
            }
            GOp::AddStaleScript { g, s } => {
                groups[*g].add_script(&world.scripts[*s].0, "exports.stale = function(){ return 'stale' }");
            }
            GOp::RemoveTmpl { g, f } => {
                groups[*g].remove_tmpl(&world.files[*f].path);
            }
            GOp::RemoveScript { g, s } => {
                groups[*g].remove_script(&world.scripts[*s].0);
            }
            GOp::SetExtra { g } => {
                if let Some(x) = &world.extra_runtime {
                    groups[*g].set_extra_runtime_script(x);
                }
            }
            GOp::SetInline { g, e } => {
                let (f, m, c) = &world.inline_edits[*e];
                let _ = groups[*g].set_inline_script_content(&world.files[*f].path, m, c);
            }
            GOp::Import { into, from } => {
                if into != from {
                    let (a, b) = if into < from {
                        let (l, r) = groups.split_at_mut(*from);
                        (&mut l[*into], &r[0])
                    } else {
                        let (l, r) = groups.split_at_mut(*into);
                        (&mut r[0], &l[*from])
                    };
                    a.import_group(b);
                }
            }
            GOp::Emit { g } => {
                let _ = emit_all(&groups[*g], &paths);
            }
        }
    }
    let g0 = &groups[0];
    let emission = emit_all(g0, &paths);
    let mut order = String::new();
    for (name, _) in g0.list_template_trees() {
        order.push_str(name);
        order.push('\n');
    }
    // independent probe of the entropy seam: a std HashMap owned by the harness, created in this
    // simulated process; its iteration order must vary with the entropy stream whether or not the
    // compiler still iterates hash maps.
    let mut probe: std::collections::HashMap<String, ()> = std::collections::HashMap::new();
    for i in 0..12 {
        probe.insert(format!("k{}", i), ());
    }
    for (k, _) in probe.iter() {
        order.push_str(k);
    }
    let css = run_css(world, &exec.sink_plan, &exec.css_order);
    ExecResult { emission, order_hash: fnv(order.as_bytes()), css }
}

/// Run one schedule as a simulated process. Err = the process panicked.
pub fn execute(world: &GroupWorld, exec: &GExec) -> Result<ExecResult, String> {
    let w = world.clone();
    let e = exec.clone();
    let h = std::thread::Builder::new()
        .stack_size(64 << 20)
        .spawn(move || {
            entropy::set_stream(e.entropy);
            execute_in_thread(&w, &e)
        })
        .expect("spawn");
    h.join().map_err(|p| {
        p.downcast_ref::<String>().cloned().or_else(|| p.downcast_ref::<&str>().map(|s| s.to_string())).unwrap_or_else(|| "panic".into())
    })
}

/// Touch everything in the compilers that is initialised lazily and process-wide (see main.rs).
pub fn warm_up() {
    let h = std::thread::Builder::new().stack_size(64 << 20).spawn(|| {
        let _ = std::panic::catch_unwind(|| {
            let mut g = TmplGroup::new();
            g.add_tmpl("warm/a", "<import src=\"b\"/><wxs module=\"m\">exports.f = function(){}</wxs><view class=\"c {{a}}\" data-x=\"{{b}}\" bind:tap=\"{{m.f}}\">&amp;&lt;&#123;&nbsp;{{ a ? b : 'c' }}</view><block wx:for=\"{{l}}\" wx:key=\"k\"><slot name=\"{{item}}\"/></block><template is=\"t\" data=\"{{...o}}\"/><include src=\"./b.wxml\"/>");
            g.add_tmpl("warm/b", "<template name=\"t\"><text>{{x}}</text></template>");
            g.add_script("warm/s", "exports.x = 1");
            let _ = g.get_tmpl_gen_object_groups();
            let _ = g.get_wx_gen_object_groups();
            let _ = g.stringify_tmpl("warm/a");
            let _ = g.get_runtime_string();
            let _: Vec<String> = g.direct_dependencies("warm/a").map(|i| i.collect()).unwrap_or_default();
            let t = StyleSheetTransformer::from_css(
                "warm.wxss",
                "@import \"./o.wxss\"; .a .b:hover { width: 10rpx; color: red } :host { margin: calc(1rpx + 2px) } @media (min-width: 10px) { .c { top: 1px } } /* c */",
                glass_easel_stylesheet_compiler::StyleSheetOptions { class_prefix: Some("p".into()), ..Default::default() },
            );
            let (a, b) = t.output_and_low_priority_output();
            let mut s = String::new();
            let _ = a.write_str(&mut s);
            let _ = b.write_str(&mut s);
            let mut v = vec![];
            let _ = a.write_source_map(&mut v);
        });
    });
    if let Ok(h) = h {
        let _ = h.join();
    }
}

pub fn canonical_exec(world: &GroupWorld) -> GExec {
    let mut ops = vec![];
    let mut idx: Vec<usize> = (0..world.files.len()).collect();
    idx.sort_by(|a, b| world.files[*a].path.cmp(&world.files[*b].path));
    for f in idx {
        ops.push(GOp::AddTmpl { g: 0, f, old: false });
    }
    let mut sidx: Vec<usize> = (0..world.scripts.len()).collect();
    sidx.sort_by(|a, b| world.scripts[*a].0.cmp(&world.scripts[*b].0));
    for s in sidx {
        ops.push(GOp::AddScript { g: 0, s });
    }
    if world.extra_runtime.is_some() {
        ops.push(GOp::SetExtra { g: 0 });
    }
    for e in 0..world.inline_edits.len() {
        ops.push(GOp::SetInline { g: 0, e });
    }
    GExec { entropy: 0, dev_flags: vec![world.dev], ops, sink_plan: vec![], css_order: vec![] }
}

/// Compare a perturbed execution with the canonical one.
pub fn compare(canon: &ExecResult, got: &ExecResult) -> Option<Violation> {
    for ((n1, b1), (n2, b2)) in canon.emission.iter().zip(got.emission.iter()) {
        if n1 != n2 {
            return Some(Violation { class: "emit_list_differs".into(), detail: format!("{} vs {}", n1, n2) });
        }
        if b1 != b2 {
            let api = n1.split('(').next().unwrap_or(n1);
            return Some(Violation {
                class: format!("emit_differs:{}", api),
                detail: format!(
                    "{} differs from the canonical execution\n--- canonical ({} bytes)\n{}\n--- this execution ({} bytes)\n{}",
                    n1,
                    b1.len(),
                    clip(b1, b2).0,
                    b2.len(),
                    clip(b1, b2).1
                ),
            });
        }
    }
    if canon.emission.len() != got.emission.len() {
        return Some(Violation { class: "emit_list_differs".into(), detail: "length".into() });
    }
    for (c, g) in canon.css.iter().zip(got.css.iter()) {
        if !c.write_ok {
            continue; // canonical uses a perfect sink; cannot happen
        }
        if g.write_ok {
            if g.data != c.data {
                let kind = if g.fired.0 + g.fired.1 > 0 { "css_sink_ok_but_wrong_bytes" } else { "css_differs" };
                return Some(Violation {
                    class: format!("{}:{}", kind, c.name.rsplit('.').next().unwrap_or("")),
                    detail: format!(
                        "{}: sink reported success but holds {} bytes, canonical {} bytes (short={}, eintr={})\n--- canonical\n{}\n--- sink\n{}",
                        c.name,
                        g.data.len(),
                        c.data.len(),
                        g.fired.0,
                        g.fired.1,
                        clip(&c.data, &g.data).0,
                        clip(&c.data, &g.data).1
                    ),
                });
            }
        } else {
            // narrow relaxation: after an error the sink holds a prefix of the canonical bytes
            if g.fired.2 == 0 {
                return Some(Violation {
                    class: format!("css_sink_spurious_error:{}", c.name.rsplit('.').next().unwrap_or("")),
                    detail: format!("{}: writer returned an error although the sink never failed hard (short={}, eintr={})", c.name, g.fired.0, g.fired.1),
                });
            }
            if !c.data.starts_with(&g.data) {
                return Some(Violation {
                    class: format!("css_sink_err_not_prefix:{}", c.name.rsplit('.').next().unwrap_or("")),
                    detail: format!("{}: after a sink error the sink does not hold a prefix of the canonical bytes", c.name),
                });
            }
        }
    }
    None
}

fn clip(a: &[u8], b: &[u8]) -> (String, String) {
    let mut i = 0;
    while i < a.len() && i < b.len() && a[i] == b[i] {
        i += 1;
    }
    let start = i.saturating_sub(60);
    let f = |x: &[u8]| {
        let end = (i + 120).min(x.len());
        let s = if start < end { &x[start..end] } else { &x[0..0] };
        format!("…@{}: {}", start, String::from_utf8_lossy(s))
    };
    (f(a), f(b))
}

// ---------------------------------------------------------------------------------------------
// generation

const FIELDS: &[&str] = &["alpha", "beta", "gamma", "delta", "eps", "zeta", "eta", "theta", "iota", "kappa", "lam", "mu", "nu", "xi", "omi", "rho"];
const PATHS: &[&str] = &["index", "a", "b", "c", "dir/a", "dir/b", "dir/sub/c", "pages/p/index", "comp/x", "comp/y", "z/z/z", "dir/index"];
const SCRIPT_PATHS: &[&str] = &["s/one", "s/two", "lib/three", "dir/four"];

fn rel_ref(r: &mut Rng, from: &str, to: &str) -> String {
    // an src that resolves to `to` when written in file `from`
    let style = r.below(4);
    if style == 0 {
        return format!("/{}", to);
    }
    let from_dir: Vec<&str> = {
        let mut v: Vec<&str> = from.split('/').collect();
        v.pop();
        v
    };
    let mut s = String::new();
    if style == 1 {
        s.push_str("./");
    }
    for _ in 0..from_dir.len() {
        s.push_str("../");
    }
    s.push_str(to);
    if style == 3 {
        // detour through a directory and back
        s = format!("{}q/../{}", if from_dir.is_empty() { "" } else { "./" }, s);
    }
    s
}

fn gen_expr(r: &mut Rng, fields: &[&str], depth: usize) -> String {
    let f = |r: &mut Rng| r.pick(fields).to_string();
    if depth >= 2 || r.chance(0.4) {
        return match r.below(5) {
            0 => format!("{}.x", f(r)),
            1 => format!("{}[{}]", f(r), f(r)),
            2 => format!("{}.list.length", f(r)),
            _ => f(r),
        };
    }
    let a = gen_expr(r, fields, depth + 1);
    let b = gen_expr(r, fields, depth + 1);
    match r.below(9) {
        0 => format!("{} + {}", a, b),
        1 => format!("{} ? {} : {}", a, b, f(r)),
        2 => format!("{} || {}", a, b),
        3 => format!("[{}, {}]", a, b),
        4 => format!("{{ {}, k: {}, ...{} }}.k", f(r), a, f(r)),
        5 => format!("!{}", a),
        6 => format!("{} === {}", a, b),
        7 => format!("{} && {}", a, b),
        _ => format!("({}) * 2 - {}", a, b),
    }
}

fn gen_chunk(r: &mut Rng, fields: &[&str], ctx: &GenCtx, depth: usize) -> String {
    let e = |r: &mut Rng| gen_expr(r, fields, 0);
    let k = r.below(if depth >= 2 { 6 } else { 15 });
    match k {
        0 => format!("<view class=\"c {{{{{}}}}}\" data-x=\"{{{{{}}}}}\" mark:m=\"{{{{{}}}}}\">t{{{{{}}}}}-{{{{{}}}}}</view>", e(r), e(r), e(r), e(r), e(r)),
        1 => format!("<text id=\"{{{{{}}}}}\" style=\"color: {{{{{}}}}}\" hidden=\"{{{{{}}}}}\">{{{{{}}}}}</text>", e(r), e(r), e(r), e(r)),
        2 => format!("{{{{{}}}}} plain text ", e(r)),
        3 => format!("<input model:value=\"{{{{{}}}}}\" bind:tap=\"{{{{{}}}}}\" catch:x=\"h\" change:value=\"{{{{{}}}}}\"/>", r.pick(fields), e(r), e(r)),
        4 => {
            let n = r.below(3);
            format!("<comp-{} prop-a=\"{{{{{}}}}}\" prop-b=\"{{{{{}}}}}\" generic:g=\"impl\"><view slot=\"{{{{{}}}}}\">{{{{{}}}}}</view></comp-{}>", n, e(r), e(r), e(r), e(r), n)
        }
        5 => format!("<slot name=\"{{{{{}}}}}\" v=\"{{{{{}}}}}\"/>", e(r), e(r)),
        6 => format!(
            "<block wx:if=\"{{{{{}}}}}\">{}</block><block wx:elif=\"{{{{{}}}}}\">{}</block><view wx:else>{}</view>",
            e(r),
            gen_chunk(r, fields, ctx, depth + 1),
            e(r),
            gen_chunk(r, fields, ctx, depth + 1),
            gen_chunk(r, fields, ctx, depth + 1)
        ),
        7 => {
            let key = *r.pick(&["", " wx:key=\"k\"", " wx:key=\"*this\""]);
            format!("<view wx:for=\"{{{{{}}}}}\"{} x=\"{{{{item.v + {}}}}}\">{{{{index}}}}{}</view>", e(r), key, r.pick(fields), gen_chunk(r, fields, ctx, depth + 1))
        }
        8 if !ctx.template_names.is_empty() => {
            let n = r.pick(&ctx.template_names);
            if r.chance(0.5) {
                format!("<template is=\"{}\" data=\"{{{{ {}, q: {}, ...{} }}}}\"/>", n, r.pick(fields), e(r), r.pick(fields))
            } else {
                format!("<template is=\"{{{{{} ? '{}' : 'none'}}}}\" data=\"{{{{ ...{} }}}}\"/>", r.pick(fields), n, r.pick(fields))
            }
        }
        9 if !ctx.include_targets.is_empty() => format!("<include src=\"{}\"/>", r.pick(&ctx.include_targets)),
        10 if !ctx.modules.is_empty() => format!("<view a=\"{{{{{}.f({})}}}}\" bind:tap=\"{{{{{}.f}}}}\"/>", r.pick(&ctx.modules), e(r), r.pick(&ctx.modules)),
        11 => format!("<view wx:for=\"{{{{{}}}}}\" wx:for-item=\"it\" wx:for-index=\"ix\"><input model:value=\"{{{{it.v}}}}\"/>{{{{ix}}}}{{{{{}}}}}</view>", r.pick(fields), e(r)),
        12 => {
            // slot value references: several distinct names in one children list
            let names = ["sa", "sb", "sc", "sd"];
            let n = r.range(2, 4);
            let mut a = String::new();
            let mut b = String::new();
            for nm in names.iter().take(n) {
                if r.chance(0.5) {
                    a.push_str(&format!(" slot:{}", nm));
                    b.push_str(&format!("{{{{{}}}}}", nm));
                } else {
                    a.push_str(&format!(" slot:{}=\"l{}\"", nm, nm));
                    b.push_str(&format!("{{{{l{}}}}}", nm));
                }
            }
            format!("<comp-{} items=\"{{{{{}}}}}\"><view{}>{}{{{{{}}}}}</view><text slot:sd>{{{{sd}}}}</text></comp-{}>", 0, e(r), a, b, e(r), 0)
        }
        _ => format!("<view a=\"{{{{{}}}}}\" b=\"s\" c>{}</view>", e(r), gen_chunk(r, fields, ctx, depth + 1)),
    }
}

#[derive(Default)]
struct GenCtx {
    template_names: Vec<String>,
    include_targets: Vec<String>,
    modules: Vec<String>,
}

fn gen_file(r: &mut Rng, path: &str, all_paths: &[String], script_paths: &[String], with_inline: bool) -> (Vec<String>, Vec<String>) {
    let nf = r.range(3, 8);
    let mut fields: Vec<&str> = FIELDS.to_vec();
    r.shuffle(&mut fields);
    fields.truncate(nf);
    let mut ctx = GenCtx::default();
    let mut chunks = vec![];
    let mut inline_modules = vec![];
    // imports / includes
    for p in all_paths {
        if p != path && r.chance(0.35) {
            let src = rel_ref(r, path, p);
            if r.chance(0.6) {
                chunks.push(format!("<import src=\"{}\"/>", src));
                ctx.template_names.push(format!("t_{}", p.replace('/', "_")));
                if r.chance(0.25) {
                    // the same file again, possibly spelled differently
                    let again = rel_ref(r, path, p);
                    chunks.push(format!("<import src=\"{}\"/>", again));
                }
            } else {
                ctx.include_targets.push(src);
            }
        }
    }
    // scripts
    for (i, s) in script_paths.iter().enumerate() {
        if r.chance(0.4) {
            let m = format!("ext{}", i);
            let suffix = if r.chance(0.5) { ".wxs" } else { "" };
            chunks.push(format!("<wxs module=\"{}\" src=\"{}{}\"/>", m, rel_ref(r, path, s), suffix));
            ctx.modules.push(m);
        }
    }
    if with_inline {
        let n = r.range(1, 2);
        for i in 0..n {
            let m = format!("in{}", i);
            chunks.push(format!("<wxs module=\"{}\">exports.f = function(a){{ return '{}:' + a }}</wxs>", m, m));
            ctx.modules.push(m.clone());
            inline_modules.push(m);
        }
    }
    // own sub template(s)
    let own = format!("t_{}", path.replace('/', "_"));
    let sub_fields: Vec<&str> = fields.iter().take(3).copied().collect();
    chunks.push(format!("<template name=\"{}\">{}</template>", own, gen_chunk(r, &sub_fields, &GenCtx::default(), 1)));
    ctx.template_names.push(own);
    let n = r.range(2, 6);
    for _ in 0..n {
        chunks.push(gen_chunk(r, &fields, &ctx, 0));
    }
    (chunks, inline_modules)
}

const CSS_RULES: &[&str] = &[
    ".a { width: 10rpx; color: red }",
    ".a .b > .c, #id .d:not(.e) { margin: -3.5rpx 2px calc(1rpx + 2px) 0 }",
    "/* comment */ .x::after { content: \"s\"; }",
    "@media (max-width: 300rpx) { .m { height: 750rpx } }",
    "@import \"./other.wxss\";",
    "@import url(\"/abs/p.wxss\") screen;",
    ":host { display: block; padding: 4rpx }",
    "@supports (display: grid) { :host { color: blue } .s { top: 1rpx } }",
    "@keyframes k { from { left: 0 } 50% { left: 5rpx } to { left: 10rpx } }",
    ".u\u{4e2d} { background: url(a.png) }",
    "@font-face { font-family: f; src: url(f.woff) }",
    ".h:host(.q) { x: y }",
    "a[href^=\"x\"] , .z:is(.p, .q .r) { --v: 1rpx; line-height: 1.5 }",
];

pub fn generate(seed: u64, thorough: bool) -> (GroupWorld, Vec<GExec>) {
    let mut r = Rng::fork(seed, "group.world");
    let k = r.range(2, 6);
    let mut paths: Vec<String> = PATHS.iter().map(|s| s.to_string()).collect();
    r.shuffle(&mut paths);
    paths.truncate(k);
    let ns = r.below(4);
    let mut spaths: Vec<String> = SCRIPT_PATHS.iter().map(|s| s.to_string()).collect();
    r.shuffle(&mut spaths);
    spaths.truncate(ns);
    let any_inline = r.chance(0.5);
    let mut world = GroupWorld::default();
    world.dev = r.chance(0.25);
    let mut inline_of: Vec<Vec<String>> = vec![];
    for p in &paths {
        let with_inline = any_inline && r.chance(0.5);
        let (chunks, inl) = gen_file(&mut r, p, &paths, &spaths, with_inline);
        // an overwritten earlier version keeps the same inline-script status (see DESIGN: has_scripts
        // is documented as not cleaned up)
        let old_chunks = if r.chance(0.2) {
            let (mut c, _) = gen_file(&mut r, p, &paths, &spaths, with_inline);
            c.push("<view>old version</view>".into());
            Some(c)
        } else {
            None
        };
        world.files.push(GFile { path: p.clone(), chunks, old_chunks });
        inline_of.push(inl);
    }
    for (i, s) in spaths.iter().enumerate() {
        let req = if i > 0 && r.chance(0.5) { format!("var o = require('/{}'); ", spaths[0]) } else { String::new() };
        world.scripts.push((s.clone(), format!("{}exports.n = {}; exports.f = function(a){{ return '{}:' + a }}", req, i, s)));
    }
    if r.chance(0.4) {
        world.extra_runtime = Some(format!("var EXTRA{}=1;", r.below(100)));
    }
    for (fi, mods) in inline_of.iter().enumerate() {
        for m in mods {
            if r.chance(0.3) {
                world.inline_edits.push((fi, m.clone(), format!("exports.f = function(a){{ return 'edited-{}:' + a }}", m)));
            }
        }
    }
    let ncss = r.range(1, 3);
    for i in 0..ncss {
        let n = r.range(1, 6);
        let mut rules = vec![];
        for _ in 0..n {
            rules.push(format!("{}\n", r.pick(CSS_RULES)));
        }
        world.css.push(GCss {
            path: format!("style/{}.wxss", i),
            rules,
            class_prefix: if r.chance(0.5) { Some(r.pick(&["p", "comp-x", "", "comp", "pp", "comp-x-y"]).to_string()) } else { None },
            class_prefix_sign: if r.chance(0.3) { Some("SIGN".into()) } else { None },
            rpx_ratio: *r.pick(&[750.0f32, 375.0, 100.0, 1.0]),
            import_sign: if r.chance(0.5) { Some("IMPORT".into()) } else { None },
            convert_host: r.chance(0.5),
            host_is: if r.chance(0.3) { Some("host-comp".into()) } else { None },
        });
    }
    // half of the worlds also carry the files of a runtime world (a different template generator)
    if r.chance(0.5) {
        let w = crate::gen::generate(seed, crate::gen::Prop::C06);
        for (p, src) in w.sources() {
            let path = format!("rt/{}", p);
            if !world.files.iter().any(|f| f.path == path) {
                world.files.push(GFile { path, chunks: vec![src], old_chunks: None });
            }
        }
        for (p, c) in w.scripts {
            world.scripts.push((format!("rt/{}", p), c));
        }
    }
    let m = if thorough { 24 } else { 8 };
    let mut execs = vec![];
    for i in 0..m {
        let mut er = Rng::fork(seed, &format!("group.exec.{}", i));
        execs.push(gen_exec(&mut er, &world, i as u64));
    }
    (world, execs)
}

pub fn gen_exec_pub(r: &mut Rng, world: &GroupWorld, i: u64) -> GExec {
    gen_exec(r, world, i)
}

fn gen_exec(r: &mut Rng, world: &GroupWorld, i: u64) -> GExec {
    // swarm: each execution enables a random subset of perturbation kinds
    let use_partition = r.chance(0.6);
    let use_dup = r.chance(0.4);
    let use_emit = r.chance(0.3);
    let use_sink = r.chance(0.7);
    let use_remove = r.chance(0.3);
    let n_groups = if use_partition { r.range(2, 4) } else { 1 };
    let dev_flags: Vec<bool> = (0..n_groups).map(|g| if g == 0 { world.dev } else { r.chance(0.5) }).collect();
    // parent tree: parent[g] is a group other than g, edges lead to 0
    let mut order: Vec<usize> = (1..n_groups).collect();
    r.shuffle(&mut order);
    let mut parent = vec![0usize; n_groups];
    let mut placed = vec![0usize];
    for g in &order {
        parent[*g] = *r.pick(&placed);
        placed.push(*g);
    }
    let group_of = |r: &mut Rng| r.below(n_groups);
    // per-group own streams
    let mut own: Vec<Vec<Vec<GOp>>> = vec![vec![]; n_groups];
    for (f, file) in world.files.iter().enumerate() {
        let g = group_of(r);
        let mut s = vec![];
        if use_remove && r.chance(0.3) {
            // added, removed, and added again: the final set is the same
            s.push(if r.chance(0.5) { GOp::AddTmpl { g, f, old: false } } else { GOp::AddStaleTmpl { g, f } });
            if use_emit && r.chance(0.3) {
                s.push(GOp::Emit { g });
            }
            s.push(GOp::RemoveTmpl { g, f });
        }
        if file.old_chunks.is_some() {
            s.push(GOp::AddTmpl { g, f, old: true });
        }
        s.push(GOp::AddTmpl { g, f, old: false });
        if use_dup && r.chance(0.4) {
            s.push(GOp::AddTmpl { g, f, old: false });
        }
        for (e, (ef, _, _)) in world.inline_edits.iter().enumerate() {
            if *ef == f {
                s.push(GOp::SetInline { g, e });
            }
        }
        if use_emit && r.chance(0.3) {
            s.push(GOp::Emit { g });
        }
        own[g].push(s);
    }
    for s in 0..world.scripts.len() {
        let g = group_of(r);
        let mut st = vec![];
        if use_remove && r.chance(0.3) {
            st.push(if r.chance(0.5) { GOp::AddScript { g, s } } else { GOp::AddStaleScript { g, s } });
            st.push(GOp::RemoveScript { g, s });
        }
        st.push(GOp::AddScript { g, s });
        if use_dup && r.chance(0.3) {
            st.push(GOp::AddScript { g, s });
        }
        own[g].push(st);
    }
    if world.extra_runtime.is_some() {
        let g = group_of(r);
        own[g].push(vec![GOp::SetExtra { g }]);
    }
    fn build(g: usize, parent: &[usize], own: &mut Vec<Vec<Vec<GOp>>>, r: &mut Rng, overlap: bool) -> Vec<GOp> {
        let mut streams: Vec<Vec<GOp>> = std::mem::take(&mut own[g]);
        for c in 1..parent.len() {
            if parent[c] == g && c != g {
                let sub = build(c, parent, own, r, overlap);
                let mut s = vec![];
                if overlap {
                    // the importing group already holds stale versions of some of the files the
                    // imported group brings: importing must replace them, as adding directly would
                    for o in &sub {
                        match o {
                            GOp::AddTmpl { f, old: false, .. } if r.chance(0.3) => s.push(GOp::AddStaleTmpl { g, f: *f }),
                            GOp::AddScript { s: si, .. } if r.chance(0.3) => s.push(GOp::AddStaleScript { g, s: *si }),
                            _ => {}
                        }
                    }
                }
                s.extend(sub);
                s.push(GOp::Import { into: g, from: c });
                streams.push(s);
            }
        }
        // random merge preserving the order inside each stream
        let mut out = vec![];
        let mut pos = vec![0usize; streams.len()];
        loop {
            let live: Vec<usize> = (0..streams.len()).filter(|i| pos[*i] < streams[*i].len()).collect();
            if live.is_empty() {
                break;
            }
            let i = *r.pick(&live);
            out.push(streams[i][pos[i]].clone());
            pos[i] += 1;
        }
        out
    }
    let use_overlap = use_partition && r.chance(0.5);
    let ops = build(0, &parent, &mut own, r, use_overlap);
    let mut sink_plan = vec![];
    if use_sink {
        let n = r.range(1, 6);
        for _ in 0..n {
            sink_plan.push(match r.below(10) {
                0 => SinkFault::Fail,
                1..=4 => SinkFault::Eintr,
                _ => SinkFault::Short(r.range(1, 40)),
            });
        }
    }
    let mut css_order = vec![];
    if !world.css.is_empty() && r.chance(0.5) {
        css_order = (0..world.css.len()).collect();
        r.shuffle(&mut css_order);
        // some sheets are transformed again later in the same process
        let extra = r.below(3);
        for _ in 0..extra {
            let k = r.below(world.css.len());
            css_order.insert(0, k);
        }
    }
    GExec { entropy: 1 + i + r.below(1 << 30) as u64, dev_flags, ops, sink_plan, css_order }
}

// ---------------------------------------------------------------------------------------------
// one run

pub struct RunReport {
    pub outcome: Outcome,
    pub stats: Stats,
    /// (world, canonical, violating exec) for the replay file
    pub failing_exec: Option<usize>,
}

pub fn count_exec_faults(world: &GroupWorld, exec: &GExec, stats: &mut Stats) {
    let n_groups = exec.dev_flags.len();
    stats.add("fault.hash_seed", 1);
    let adds: Vec<usize> = exec.ops.iter().filter_map(|o| if let GOp::AddTmpl { f, old: false, .. } = o { Some(*f) } else { None }).collect();
    let mut sorted = adds.clone();
    sorted.sort_by(|a, b| world.files[*a].path.cmp(&world.files[*b].path));
    if adds != sorted {
        stats.add("fault.insertion_permutation", 1);
    }
    if n_groups > 1 {
        stats.add("fault.group_partition_import", exec.ops.iter().filter(|o| matches!(o, GOp::Import { .. })).count() as u64);
    }
    let mut seen = std::collections::BTreeSet::new();
    for o in &exec.ops {
        match o {
            GOp::AddTmpl { f, old: false, .. } => {
                if !seen.insert(("t", *f)) {
                    stats.add("fault.dup_add", 1);
                }
            }
            GOp::AddTmpl { old: true, .. } => stats.add("fault.overwrite", 1),
            GOp::AddScript { s, .. } => {
                if !seen.insert(("s", *s)) {
                    stats.add("fault.dup_add", 1);
                }
            }
            GOp::Emit { .. } => stats.add("fault.interleaved_emit", 1),
            GOp::SetInline { .. } => stats.add("fault.inline_script_edit", 1),
            GOp::AddStaleTmpl { .. } | GOp::AddStaleScript { .. } => stats.add("fault.import_over_stale", 1),
            GOp::RemoveTmpl { .. } | GOp::RemoveScript { .. } => stats.add("fault.remove_then_readd", 1),
            _ => {}
        }
    }
    if exec.dev_flags.iter().skip(1).any(|d| *d != exec.dev_flags[0]) {
        stats.add("fault.subgroup_dev_mode_differs", 1);
    }
}

pub fn run_world(world: &GroupWorld, execs: &[GExec]) -> RunReport {
    let mut stats = Stats::default();
    let canon_exec = canonical_exec(world);
    let canon = match execute(world, &canon_exec) {
        Ok(c) => c,
        Err(p) => {
            stats.add("discard.compiler_panic_in_canonical", 1);
            return RunReport { outcome: Outcome::Discard(format!("canonical execution panicked: {}", p)), stats, failing_exec: None };
        }
    };
    let mut orders = std::collections::BTreeSet::new();
    orders.insert(canon.order_hash);
    let mut sched_sigs = vec![];
    for (i, e) in execs.iter().enumerate() {
        count_exec_faults(world, e, &mut stats);
        stats.add("step.group_api_calls", e.ops.len() as u64);
        let got = match execute(world, e) {
            Ok(g) => g,
            Err(p) => {
                return RunReport {
                    outcome: Outcome::Violated(Violation { class: "panic_in_some_process".into(), detail: format!("canonical execution returned but a perturbed one panicked: {}", p) }),
                    stats,
                    failing_exec: Some(i),
                };
            }
        };
        for c in &got.css {
            stats.add("fault.sink_short_write", c.fired.0);
            stats.add("fault.sink_eintr", c.fired.1);
            stats.add("fault.sink_error", c.fired.2);
        }
        orders.insert(got.order_hash);
        let sig = fnv(format!("{:?}|{}", e.ops, got.order_hash).as_bytes());
        sched_sigs.push(sig);
        stats.add("step.executions", 1);
        if let Some(v) = compare(&canon, &got) {
            return RunReport { outcome: Outcome::Violated(v), stats, failing_exec: Some(i) };
        }
    }
    stats.add("probe.distinct_hashmap_orders_in_run", orders.len() as u64);
    if orders.len() >= 2 {
        stats.add("probe.runs_with_2plus_iteration_orders", 1);
    }
    for s in sched_sigs {
        stats.signatures.insert(s);
        if orders.len() >= 2 {
            stats.nontrivial_signatures.insert(s);
        }
    }
    RunReport { outcome: Outcome::Held, stats, failing_exec: None }
}

// ---------------------------------------------------------------------------------------------
// JSON (replay files)

pub fn world_to_json(w: &GroupWorld) -> Value {
    json!({
        "files": w.files.iter().map(|f| json!({"path": f.path, "chunks": f.chunks, "old_chunks": f.old_chunks})).collect::<Vec<_>>(),
        "scripts": w.scripts.iter().map(|(p, c)| json!([p, c])).collect::<Vec<_>>(),
        "extra_runtime": w.extra_runtime,
        "inline_edits": w.inline_edits.iter().map(|(f, m, c)| json!([f, m, c])).collect::<Vec<_>>(),
        "dev": w.dev,
        "css": w.css.iter().map(|c| json!({
            "path": c.path, "rules": c.rules, "class_prefix": c.class_prefix, "class_prefix_sign": c.class_prefix_sign,
            "rpx_ratio": c.rpx_ratio, "import_sign": c.import_sign, "convert_host": c.convert_host, "host_is": c.host_is,
        })).collect::<Vec<_>>(),
    })
}

fn strs(v: &Value) -> Vec<String> {
    v.as_array().map(|a| a.iter().filter_map(|x| x.as_str().map(String::from)).collect()).unwrap_or_default()
}
fn opt_str(v: &Value) -> Option<String> {
    v.as_str().map(String::from)
}

pub fn world_from_json(v: &Value) -> GroupWorld {
    let mut w = GroupWorld::default();
    for f in v["files"].as_array().cloned().unwrap_or_default() {
        w.files.push(GFile {
            path: f["path"].as_str().unwrap_or("").into(),
            chunks: strs(&f["chunks"]),
            old_chunks: if f["old_chunks"].is_array() { Some(strs(&f["old_chunks"])) } else { None },
        });
    }
    for s in v["scripts"].as_array().cloned().unwrap_or_default() {
        w.scripts.push((s[0].as_str().unwrap_or("").into(), s[1].as_str().unwrap_or("").into()));
    }
    w.extra_runtime = opt_str(&v["extra_runtime"]);
    for e in v["inline_edits"].as_array().cloned().unwrap_or_default() {
        w.inline_edits.push((e[0].as_u64().unwrap_or(0) as usize, e[1].as_str().unwrap_or("").into(), e[2].as_str().unwrap_or("").into()));
    }
    w.dev = v["dev"].as_bool().unwrap_or(false);
    for c in v["css"].as_array().cloned().unwrap_or_default() {
        w.css.push(GCss {
            path: c["path"].as_str().unwrap_or("").into(),
            rules: strs(&c["rules"]),
            class_prefix: opt_str(&c["class_prefix"]),
            class_prefix_sign: opt_str(&c["class_prefix_sign"]),
            rpx_ratio: c["rpx_ratio"].as_f64().unwrap_or(750.0) as f32,
            import_sign: opt_str(&c["import_sign"]),
            convert_host: c["convert_host"].as_bool().unwrap_or(false),
            host_is: opt_str(&c["host_is"]),
        });
    }
    w
}

pub fn exec_to_json(e: &GExec) -> Value {
    json!({
        "entropy": e.entropy.to_string(),
        "dev_flags": e.dev_flags,
        "ops": e.ops.iter().map(|o| match o {
            GOp::AddTmpl { g, f, old } => json!(["add_tmpl", g, f, old]),
            GOp::AddScript { g, s } => json!(["add_script", g, s]),
            GOp::AddStaleTmpl { g, f } => json!(["add_stale_tmpl", g, f]),
            GOp::AddStaleScript { g, s } => json!(["add_stale_script", g, s]),
            GOp::RemoveTmpl { g, f } => json!(["remove_tmpl", g, f]),
            GOp::RemoveScript { g, s } => json!(["remove_script", g, s]),
            GOp::SetExtra { g } => json!(["set_extra", g]),
            GOp::SetInline { g, e } => json!(["set_inline", g, e]),
            GOp::Import { into, from } => json!(["import_group", into, from]),
            GOp::Emit { g } => json!(["emit", g]),
        }).collect::<Vec<_>>(),
        "sink_plan": e.sink_plan.iter().map(|s| match s {
            SinkFault::Short(n) => json!(["short", n]),
            SinkFault::Eintr => json!(["eintr"]),
            SinkFault::Fail => json!(["fail"]),
        }).collect::<Vec<_>>(),
        "css_order": e.css_order,
    })
}

pub fn exec_from_json(v: &Value) -> GExec {
    let u = |x: &Value| x.as_u64().unwrap_or(0) as usize;
    let mut ops = vec![];
    for o in v["ops"].as_array().cloned().unwrap_or_default() {
        match o[0].as_str().unwrap_or("") {
            "add_tmpl" => ops.push(GOp::AddTmpl { g: u(&o[1]), f: u(&o[2]), old: o[3].as_bool().unwrap_or(false) }),
            "add_script" => ops.push(GOp::AddScript { g: u(&o[1]), s: u(&o[2]) }),
            "add_stale_tmpl" => ops.push(GOp::AddStaleTmpl { g: u(&o[1]), f: u(&o[2]) }),
            "add_stale_script" => ops.push(GOp::AddStaleScript { g: u(&o[1]), s: u(&o[2]) }),
            "remove_tmpl" => ops.push(GOp::RemoveTmpl { g: u(&o[1]), f: u(&o[2]) }),
            "remove_script" => ops.push(GOp::RemoveScript { g: u(&o[1]), s: u(&o[2]) }),
            "set_extra" => ops.push(GOp::SetExtra { g: u(&o[1]) }),
            "set_inline" => ops.push(GOp::SetInline { g: u(&o[1]), e: u(&o[2]) }),
            "import_group" => ops.push(GOp::Import { into: u(&o[1]), from: u(&o[2]) }),
            "emit" => ops.push(GOp::Emit { g: u(&o[1]) }),
            _ => {}
        }
    }
    let mut sink_plan = vec![];
    for s in v["sink_plan"].as_array().cloned().unwrap_or_default() {
        match s[0].as_str().unwrap_or("") {
            "short" => sink_plan.push(SinkFault::Short(u(&s[1]))),
            "eintr" => sink_plan.push(SinkFault::Eintr),
            "fail" => sink_plan.push(SinkFault::Fail),
            _ => {}
        }
    }
    GExec {
        entropy: v["entropy"].as_str().and_then(|s| s.parse().ok()).unwrap_or(0),
        dev_flags: v["dev_flags"].as_array().map(|a| a.iter().map(|b| b.as_bool().unwrap_or(false)).collect()).unwrap_or_else(|| vec![false]),
        ops,
        sink_plan,
        css_order: v["css_order"].as_array().map(|a| a.iter().map(|x| x.as_u64().unwrap_or(0) as usize).collect()).unwrap_or_default(),
    }
}

// ---------------------------------------------------------------------------------------------
// shrinking: smaller (world, exec) pairs that keep the same violation class

fn remove_file(w: &GroupWorld, e: &GExec, f: usize) -> (GroupWorld, GExec) {
    let mut w2 = w.clone();
    w2.files.remove(f);
    let mut edit_map = vec![];
    let mut new_edits = vec![];
    for (i, (ef, m, c)) in w.inline_edits.iter().enumerate() {
        if *ef == f {
            edit_map.push(None);
        } else {
            edit_map.push(Some(new_edits.len()));
            new_edits.push((if *ef > f { ef - 1 } else { *ef }, m.clone(), c.clone()));
        }
        let _ = i;
    }
    w2.inline_edits = new_edits;
    let mut e2 = e.clone();
    e2.ops = e
        .ops
        .iter()
        .filter_map(|o| match o {
            GOp::AddTmpl { f: of, .. } if *of == f => None,
            GOp::AddTmpl { g, f: of, old } => Some(GOp::AddTmpl { g: *g, f: if *of > f { of - 1 } else { *of }, old: *old }),
            GOp::AddStaleTmpl { f: of, .. } if *of == f => None,
            GOp::AddStaleTmpl { g, f: of } => Some(GOp::AddStaleTmpl { g: *g, f: if *of > f { of - 1 } else { *of } }),
            GOp::RemoveTmpl { f: of, .. } if *of == f => None,
            GOp::RemoveTmpl { g, f: of } => Some(GOp::RemoveTmpl { g: *g, f: if *of > f { of - 1 } else { *of } }),
            GOp::SetInline { g, e } => edit_map[*e].map(|ne| GOp::SetInline { g: *g, e: ne }),
            o => Some(o.clone()),
        })
        .collect();
    (w2, e2)
}

pub fn shrink_candidates(w: &GroupWorld, e: &GExec) -> Vec<(GroupWorld, GExec)> {
    let mut out = vec![];
    // simplest schedule first: canonical order, only the entropy differs
    {
        let mut c = canonical_exec(w);
        c.entropy = e.entropy;
        c.sink_plan = e.sink_plan.clone();
        if c.ops != e.ops || e.dev_flags.len() != 1 {
            out.push((w.clone(), c));
        }
    }
    if !e.css_order.is_empty() {
        let mut e2 = e.clone();
        e2.css_order.clear();
        out.push((w.clone(), e2));
    }
    if !e.sink_plan.is_empty() {
        let mut e2 = e.clone();
        e2.sink_plan.clear();
        out.push((w.clone(), e2));
        for i in 0..e.sink_plan.len() {
            let mut e2 = e.clone();
            e2.sink_plan.remove(i);
            out.push((w.clone(), e2));
        }
    }
    if !w.css.is_empty() {
        let mut w2 = w.clone();
        w2.css.clear();
        out.push((w2, e.clone()));
        for i in 0..w.css.len() {
            let mut w2 = w.clone();
            w2.css.remove(i);
            out.push((w2, e.clone()));
            for j in 0..w.css[i].rules.len() {
                let mut w2 = w.clone();
                w2.css[i].rules.remove(j);
                out.push((w2, e.clone()));
            }
        }
    }
    for f in 0..w.files.len() {
        out.push(remove_file(w, e, f));
    }
    if !w.scripts.is_empty() {
        for s in 0..w.scripts.len() {
            let mut w2 = w.clone();
            w2.scripts.remove(s);
            let mut e2 = e.clone();
            e2.ops = e
                .ops
                .iter()
                .filter_map(|o| match o {
                    GOp::AddScript { s: os, .. } if *os == s => None,
                    GOp::AddScript { g, s: os } => Some(GOp::AddScript { g: *g, s: if *os > s { os - 1 } else { *os } }),
                    GOp::AddStaleScript { s: os, .. } if *os == s => None,
                    GOp::AddStaleScript { g, s: os } => Some(GOp::AddStaleScript { g: *g, s: if *os > s { os - 1 } else { *os } }),
                    GOp::RemoveScript { s: os, .. } if *os == s => None,
                    GOp::RemoveScript { g, s: os } => Some(GOp::RemoveScript { g: *g, s: if *os > s { os - 1 } else { *os } }),
                    o => Some(o.clone()),
                })
                .collect();
            out.push((w2, e2));
        }
    }
    if w.extra_runtime.is_some() {
        let mut w2 = w.clone();
        w2.extra_runtime = None;
        out.push((w2, e.clone()));
    }
    if w.dev {
        let mut w2 = w.clone();
        w2.dev = false;
        let mut e2 = e.clone();
        for d in e2.dev_flags.iter_mut() {
            *d = false;
        }
        out.push((w2, e2));
    }
    // drop single ops that are not needed for a well-formed history
    for i in 0..e.ops.len() {
        let droppable = match &e.ops[i] {
            GOp::Emit { .. } => true,
            GOp::AddTmpl { old: true, .. } => true,
            GOp::AddStaleTmpl { .. } | GOp::AddStaleScript { .. } => true,
            GOp::SetInline { .. } => false,
            GOp::AddTmpl { f, old: false, .. } => e.ops.iter().filter(|o| matches!(o, GOp::AddTmpl { f: f2, old: false, .. } if f2 == f)).count() > 1,
            GOp::AddScript { s, .. } => e.ops.iter().filter(|o| matches!(o, GOp::AddScript { s: s2, .. } if s2 == s)).count() > 1,
            _ => false,
        };
        if droppable {
            let mut e2 = e.clone();
            e2.ops.remove(i);
            out.push((w.clone(), e2));
        }
    }
    for (i, (_, _, _)) in w.inline_edits.iter().enumerate() {
        let mut w2 = w.clone();
        w2.inline_edits.remove(i);
        let mut e2 = e.clone();
        e2.ops = e
            .ops
            .iter()
            .filter_map(|o| match o {
                GOp::SetInline { e: oe, .. } if *oe == i => None,
                GOp::SetInline { g, e: oe } => Some(GOp::SetInline { g: *g, e: if *oe > i { oe - 1 } else { *oe } }),
                o => Some(o.clone()),
            })
            .collect();
        out.push((w2, e2));
    }
    // drop chunks of files
    for f in 0..w.files.len() {
        if w.files[f].old_chunks.is_some() {
            let mut w2 = w.clone();
            w2.files[f].old_chunks = None;
            let mut e2 = e.clone();
            e2.ops.retain(|o| !matches!(o, GOp::AddTmpl { f: of, old: true, .. } if *of == f));
            out.push((w2, e2));
        }
        for c in 0..w.files[f].chunks.len() {
            let mut w2 = w.clone();
            w2.files[f].chunks.remove(c);
            out.push((w2, e.clone()));
        }
    }
    out
}

/// Does (world, exec) still violate with the given class? Runs canonical + exec.
pub fn check_pair(w: &GroupWorld, e: &GExec) -> Option<Violation> {
    let canon = execute(w, &canonical_exec(w)).ok()?;
    match execute(w, e) {
        Ok(got) => compare(&canon, &got),
        Err(p) => Some(Violation { class: "panic_in_some_process".into(), detail: p }),
    }
}

pub fn shrink(w: &GroupWorld, e: &GExec, class: &str, budget: usize) -> (GroupWorld, GExec, usize) {
    let mut cur = (w.clone(), e.clone());
    let mut tried = 0;
    'outer: loop {
        for cand in shrink_candidates(&cur.0, &cur.1) {
            if tried >= budget {
                break 'outer;
            }
            tried += 1;
            if let Some(v) = check_pair(&cand.0, &cand.1) {
                if v.class == class {
                    cur = cand;
                    continue 'outer;
                }
            }
        }
        break;
    }
    (cur.0, cur.1, tried)
}
