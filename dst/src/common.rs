//! Shared plumbing: outcomes, batch statistics, evidence and replay files.

use serde_json::{json, Map, Value};
use std::collections::{BTreeMap, BTreeSet};
use std::path::{Path, PathBuf};

pub const DEFAULT_SEED: u64 = 20260928;

pub fn verif_dir() -> PathBuf {
    std::env::var("GE_VERIF_DIR").map(PathBuf::from).unwrap_or_else(|_| PathBuf::from("/verif"))
}
pub fn repo_dir() -> PathBuf {
    std::env::var("GE_REPO_DIR").map(PathBuf::from).unwrap_or_else(|_| PathBuf::from("/repo"))
}

#[derive(Clone, Debug)]
pub struct Violation {
    /// stable class used to keep "the same violation" while shrinking
    pub class: String,
    /// human-readable detail (first differing output, trees, …)
    pub detail: String,
}

#[derive(Clone, Debug)]
pub enum Outcome {
    /// the property held on this run
    Held,
    /// the run says nothing about the property (reason is counted)
    Discard(String),
    Violated(Violation),
}

/// Counters gathered from runs; merged across workers in run-index order so that the evidence is
/// independent of the worker count.
#[derive(Clone, Debug, Default)]
pub struct Stats {
    pub counters: BTreeMap<String, u64>,
    pub signatures: BTreeSet<u64>,
    pub nontrivial_signatures: BTreeSet<u64>,
    /// named sets of hashes (distinct update-path-tree shapes, distinct event logs, ...)
    pub sets: BTreeMap<String, BTreeSet<u64>>,
}

impl Stats {
    pub fn add(&mut self, k: &str, n: u64) {
        *self.counters.entry(k.to_string()).or_insert(0) += n;
    }
    pub fn merge(&mut self, o: &Stats) {
        for (k, v) in &o.counters {
            *self.counters.entry(k.clone()).or_insert(0) += v;
        }
        for (k, v) in &o.sets {
            self.sets.entry(k.clone()).or_default().extend(v.iter().copied());
        }
        self.signatures.extend(o.signatures.iter().copied());
        self.nontrivial_signatures.extend(o.nontrivial_signatures.iter().copied());
    }
    pub fn add_to_set(&mut self, set: &str, h: u64) {
        self.sets.entry(set.to_string()).or_default().insert(h);
    }
    pub fn set_sizes(&self) -> Value {
        let mut m = Map::new();
        for (k, v) in &self.sets {
            m.insert(k.clone(), json!(v.len()));
        }
        Value::Object(m)
    }
    pub fn group(&self, prefix: &str) -> Value {
        let mut m = Map::new();
        for (k, v) in &self.counters {
            if let Some(rest) = k.strip_prefix(prefix) {
                m.insert(rest.to_string(), json!(v));
            }
        }
        Value::Object(m)
    }
}

pub struct EvidenceInput<'a> {
    pub property: &'a str,
    pub tier: &'a str,
    pub seed: u64,
    pub level: &'a str,
    pub evaluations: u64,
    pub rule: &'a str,
    pub samples: Vec<Value>,
    pub stats: &'a Stats,
    pub wall_s: f64,
    pub violations: u64,
    pub known_findings: Vec<Value>,
    pub assumptions: Vec<String>,
    pub real_vs_stub: Value,
    pub extra: Value,
}

pub fn write_evidence(e: EvidenceInput) {
    let per_hour = |n: u64| -> u64 {
        if e.wall_s > 0.0 {
            (n as f64 * 3600.0 / e.wall_s) as u64
        } else {
            0
        }
    };
    let mut coverage = json!({
        "evaluations": e.evaluations,
        "distinct_nontrivial": e.stats.nontrivial_signatures.len(),
        "distinct_signatures_total": e.stats.signatures.len(),
        "rule": e.rule,
        "samples": e.samples,
        "runs_per_hour": per_hour(e.evaluations),
        "seeds_per_hour": per_hour(e.evaluations),
        "simulated_time": "logical steps only: no property in this repository depends on simulated wall-clock time; timers are owned by the simulator and drained at schedule-defined points",
        "faults_fired": e.stats.group("fault."),
        "faults_configured": e.stats.group("cfg."),
        "probes": e.stats.group("probe."),
        "distinct_by_measure": e.stats.set_sizes(),
        "discarded": e.stats.group("discard."),
        "steps": e.stats.group("step."),
        "real_vs_stub": e.real_vs_stub,
        "known_findings_reported": e.known_findings,
        "fixed_findings_replayed": FIXED_REPLAYED.load(std::sync::atomic::Ordering::Relaxed),
        "fixed_findings_violating_again": FIXED_VIOLATING.load(std::sync::atomic::Ordering::Relaxed),
    });
    if let (Value::Object(c), Value::Object(x)) = (&mut coverage, e.extra) {
        for (k, v) in x {
            c.insert(k, v);
        }
    }
    let ev = json!({
        "property_id": e.property,
        "tier": e.tier,
        "seed": e.seed,
        "level": e.level,
        "coverage": coverage,
        "assumptions": e.assumptions,
        "wall_s": e.wall_s,
        "violations": e.violations,
    });
    let dir = verif_dir().join("evidence");
    let _ = std::fs::create_dir_all(&dir);
    let path = dir.join(format!("{}.json", e.property));
    let tmp = dir.join(format!("{}.json.tmp", e.property));
    std::fs::write(&tmp, serde_json::to_string_pretty(&ev).unwrap()).expect("write evidence");
    std::fs::rename(&tmp, &path).expect("rename evidence");
}

pub fn write_replay(property: &str, tag: &str, v: &Value) -> PathBuf {
    let dir = verif_dir().join("replays");
    let _ = std::fs::create_dir_all(&dir);
    let path = dir.join(format!("{}-{}.json", property, tag));
    std::fs::write(&path, serde_json::to_string_pretty(v).unwrap()).expect("write replay");
    path
}

pub fn read_json(path: &Path) -> Result<Value, String> {
    let s = std::fs::read_to_string(path).map_err(|e| format!("{}: {}", path.display(), e))?;
    serde_json::from_str(&s).map_err(|e| format!("{}: {}", path.display(), e))
}

pub fn harness_error(msg: &str) -> ! {
    eprintln!("HARNESS-ERROR: {}", msg);
    println!("HARNESS-ERROR: {}", msg);
    std::process::exit(2);
}

/// known_findings.jsonl: one JSON object per line, committed, never written at run time.
#[derive(Clone, Debug)]
pub struct KnownFinding {
    pub kind: String, // "finding" | "fixed"
    pub property: String,
    pub id: String,
    pub what: String,
    pub replay: Option<String>,
    /// every replay file of the entry (`replay` may be a list)
    pub replays: Vec<String>,
    pub trigger: Vec<String>,
    /// at least one of these tags must be present (when not empty)
    pub trigger_any: Vec<String>,
    pub benign: Vec<String>,
    pub class_prefix: String,
    pub classes: Vec<String>,
    /// the first difference must lie under a node with this tag (e.g. a component name)
    pub locus_contains: Vec<String>,
    /// the minimised root source must match (for findings on raw, mutated sources)
    pub source_regex: String,
    /// matched against the re-printed text of the root file (C14)
    pub printed_regex: String,
}

pub static FIXED_REPLAYED: std::sync::atomic::AtomicU64 = std::sync::atomic::AtomicU64::new(0);
pub static FIXED_VIOLATING: std::sync::atomic::AtomicU64 = std::sync::atomic::AtomicU64::new(0);

pub fn load_known_findings() -> Vec<KnownFinding> {
    // (debugging aid: judge everything as if nothing were listed)
    if std::env::var("GE_NO_KNOWN").is_ok() {
        return vec![];
    }
    let p = verif_dir().join("known_findings.jsonl");
    let Ok(s) = std::fs::read_to_string(&p) else { return vec![] };
    let mut out = vec![];
    for line in s.lines() {
        let line = line.trim();
        if line.is_empty() || line.starts_with('#') {
            continue;
        }
        let v: Value = match serde_json::from_str(line) {
            Ok(v) => v,
            Err(e) => harness_error(&format!("known_findings.jsonl: {}", e)),
        };
        let strs = |k: &str| -> Vec<String> {
            v.get(k)
                .and_then(|x| x.as_array())
                .map(|a| a.iter().filter_map(|x| x.as_str().map(String::from)).collect())
                .unwrap_or_default()
        };
        out.push(KnownFinding {
            kind: v["kind"].as_str().unwrap_or("finding").to_string(),
            property: v["property"].as_str().unwrap_or("").to_string(),
            id: v["id"].as_str().unwrap_or("").to_string(),
            what: v["what"].as_str().unwrap_or("").to_string(),
            replay: v.get("replay").and_then(|x| x.as_str()).map(String::from),
            replays: match v.get("replay") {
                Some(Value::String(x)) => vec![x.clone()],
                Some(Value::Array(a)) => a.iter().filter_map(|x| x.as_str().map(String::from)).collect(),
                _ => vec![],
            },
            trigger: strs("trigger"),
            trigger_any: strs("trigger_any"),
            benign: strs("benign"),
            class_prefix: v.get("class_prefix").and_then(|x| x.as_str()).unwrap_or("").to_string(),
            classes: strs("classes"),
            locus_contains: strs("locus_contains"),
            source_regex: v.get("source_regex").and_then(|x| x.as_str()).unwrap_or("").to_string(),
            printed_regex: v.get("printed_regex").and_then(|x| x.as_str()).unwrap_or("").to_string(),
        });
    }
    out
}

/// Evaluate f(0..n) on `workers` threads; results are returned in index order, so everything
/// derived from them is independent of the worker count and of thread timing.
pub fn parallel_map<T: Send + 'static>(n: u64, workers: usize, f: impl Fn(u64) -> T + Send + Sync + 'static) -> Vec<T> {
    use std::sync::atomic::{AtomicU64, Ordering};
    use std::sync::{Arc, Mutex};
    let next = Arc::new(AtomicU64::new(0));
    let out: Arc<Mutex<Vec<Option<T>>>> = Arc::new(Mutex::new((0..n).map(|_| None).collect()));
    let f = Arc::new(f);
    let mut hs = vec![];
    for _ in 0..workers.max(1) {
        let next = next.clone();
        let out = out.clone();
        let f = f.clone();
        hs.push(std::thread::Builder::new().stack_size(256 << 20).spawn(move || loop {
            let i = next.fetch_add(1, Ordering::SeqCst);
            if i >= n {
                break;
            }
            let r = f(i);
            out.lock().unwrap()[i as usize] = Some(r);
        }).expect("spawn worker"));
    }
    for h in hs {
        h.join().expect("worker thread panicked");
    }
    let mut g = out.lock().unwrap();
    g.drain(..).map(|x| x.expect("missing result")).collect()
}
