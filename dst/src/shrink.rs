//! Minimisation of runtime worlds (delta debugging over ops, template nodes, expressions, data,
//! files and knobs) and matching of minimised worlds against the committed known findings.

use crate::common::*;
use crate::rt::run_explicit;
use crate::world::*;
use serde_json::{json, Value};
use std::collections::BTreeSet;

// ---------------------------------------------------------------------------------------------
// expression edits

fn expr_edits(e: &Expr) -> Vec<Expr> {
    let mut out = vec![];
    // hoist a child
    for c in e.children() {
        out.push(c.clone());
    }
    // simplify children in place
    match e {
        Expr::Member(a, f) => {
            for x in expr_edits(a) {
                out.push(Expr::Member(Box::new(x), f.clone()));
            }
        }
        Expr::Index(a, b) => {
            for x in expr_edits(a) {
                out.push(Expr::Index(Box::new(x), b.clone()));
            }
            for x in expr_edits(b) {
                out.push(Expr::Index(a.clone(), Box::new(x)));
            }
            if !matches!(**b, Expr::Num(_)) {
                out.push(Expr::Index(a.clone(), Box::new(Expr::Num("0".into()))));
            }
        }
        Expr::Bin(op, a, b) => {
            for x in expr_edits(a) {
                out.push(Expr::Bin(op.clone(), Box::new(x), b.clone()));
            }
            for x in expr_edits(b) {
                out.push(Expr::Bin(op.clone(), a.clone(), Box::new(x)));
            }
        }
        Expr::Un(op, a) => {
            for x in expr_edits(a) {
                out.push(Expr::Un(op.clone(), Box::new(x)));
            }
        }
        Expr::Cond(a, b, c) => {
            for x in expr_edits(a) {
                out.push(Expr::Cond(Box::new(x), b.clone(), c.clone()));
            }
            for x in expr_edits(b) {
                out.push(Expr::Cond(a.clone(), Box::new(x), c.clone()));
            }
            for x in expr_edits(c) {
                out.push(Expr::Cond(a.clone(), b.clone(), Box::new(x)));
            }
        }
        Expr::Arr(items) => {
            for i in 0..items.len() {
                if items.len() > 1 {
                    let mut v = items.clone();
                    v.remove(i);
                    out.push(Expr::Arr(v));
                }
                if let ArrItem::Item(x) | ArrItem::Spread(x) = &items[i] {
                    for y in expr_edits(x) {
                        let mut v = items.clone();
                        v[i] = if matches!(items[i], ArrItem::Item(_)) { ArrItem::Item(y) } else { ArrItem::Spread(y) };
                        out.push(Expr::Arr(v));
                    }
                    if matches!(items[i], ArrItem::Spread(_)) {
                        let mut v = items.clone();
                        v[i] = ArrItem::Item(x.clone());
                        out.push(Expr::Arr(v));
                    }
                }
            }
        }
        Expr::Obj(items) => {
            for i in 0..items.len() {
                if items.len() > 1 {
                    let mut v = items.clone();
                    v.remove(i);
                    out.push(Expr::Obj(v));
                }
                if let ObjItem::Named(k, x) = &items[i] {
                    for y in expr_edits(x) {
                        let mut v = items.clone();
                        v[i] = ObjItem::Named(k.clone(), y);
                        out.push(Expr::Obj(v));
                    }
                }
                if let ObjItem::Spread(x) = &items[i] {
                    for y in expr_edits(x) {
                        let mut v = items.clone();
                        v[i] = ObjItem::Spread(y);
                        out.push(Expr::Obj(v));
                    }
                }
            }
        }
        Expr::Call(f, args) => {
            for i in 0..args.len() {
                for y in expr_edits(&args[i]) {
                    let mut v = args.clone();
                    v[i] = y;
                    out.push(Expr::Call(f.clone(), v));
                }
            }
        }
        _ => {}
    }
    out
}

fn parts_edits(parts: &[TextPart]) -> Vec<Vec<TextPart>> {
    let mut out = vec![];
    for i in 0..parts.len() {
        if parts.len() > 1 {
            let mut v = parts.to_vec();
            v.remove(i);
            out.push(v);
        }
    }
    for i in 0..parts.len() {
        if let TextPart::Bind(e) = &parts[i] {
            for x in expr_edits(e) {
                let mut v = parts.to_vec();
                v[i] = TextPart::Bind(x);
                out.push(v);
            }
        }
    }
    out
}

fn attrval_edits(v: &AttrVal) -> Vec<AttrVal> {
    match v {
        AttrVal::Bind(e) => expr_edits(e).into_iter().map(AttrVal::Bind).collect(),
        AttrVal::Mixed(p) => {
            let mut out: Vec<AttrVal> = parts_edits(p).into_iter().map(AttrVal::Mixed).collect();
            if p.len() == 1 {
                if let TextPart::Bind(e) = &p[0] {
                    out.push(AttrVal::Bind(e.clone()));
                }
            }
            out
        }
        _ => vec![],
    }
}

// ---------------------------------------------------------------------------------------------
// node edits: coarse ones (deletions, unwrapping) first, then fine ones

fn node_list_edits(nodes: &[Node], fine: bool) -> Vec<Vec<Node>> {
    let mut out = vec![];
    if !fine {
        for i in 0..nodes.len() {
            let mut v = nodes.to_vec();
            v.remove(i);
            out.push(v);
        }
        for i in 0..nodes.len() {
            let repl: Vec<Vec<Node>> = match &nodes[i] {
                Node::El { children, .. } if !children.is_empty() => vec![children.clone()],
                Node::Block(ch) => vec![ch.clone()],
                Node::For { children, .. } => vec![children.clone()],
                Node::If { branches, else_, .. } => {
                    let mut r: Vec<Vec<Node>> = branches.iter().map(|b| b.1.clone()).collect();
                    if let Some(e) = else_ {
                        r.push(e.clone());
                    }
                    r
                }
                _ => vec![],
            };
            for r in repl {
                let mut v = nodes.to_vec();
                v.splice(i..i + 1, r);
                out.push(v);
            }
        }
    }
    for i in 0..nodes.len() {
        for nn in node_edits(&nodes[i], fine) {
            let mut v = nodes.to_vec();
            v[i] = nn;
            out.push(v);
        }
    }
    out
}

fn node_edits(n: &Node, fine: bool) -> Vec<Node> {
    let mut out = vec![];
    match n {
        Node::Text(parts) => {
            if fine {
                for p in parts_edits(parts) {
                    out.push(Node::Text(p));
                }
            }
        }
        Node::El { tag, attrs, children } => {
            if !fine {
                for j in 0..attrs.len() {
                    let mut a = attrs.clone();
                    a.remove(j);
                    out.push(Node::El { tag: tag.clone(), attrs: a, children: children.clone() });
                }
            } else {
                for j in 0..attrs.len() {
                    for v in attrval_edits(&attrs[j].val) {
                        let mut a = attrs.clone();
                        a[j].val = v;
                        out.push(Node::El { tag: tag.clone(), attrs: a, children: children.clone() });
                    }
                }
            }
            for c in node_list_edits(children, fine) {
                out.push(Node::El { tag: tag.clone(), attrs: attrs.clone(), children: c });
            }
        }
        Node::If { branches, else_, on } => {
            if !fine {
                if branches.len() > 1 {
                    for j in 0..branches.len() {
                        let mut b = branches.clone();
                        b.remove(j);
                        out.push(Node::If { branches: b, else_: else_.clone(), on: on.clone() });
                    }
                }
                if else_.is_some() {
                    out.push(Node::If { branches: branches.clone(), else_: None, on: on.clone() });
                }
                if on.is_some() {
                    out.push(Node::If { branches: branches.clone(), else_: else_.clone(), on: None });
                }
            } else {
                for j in 0..branches.len() {
                    for x in expr_edits(&branches[j].0) {
                        let mut b = branches.clone();
                        b[j].0 = x;
                        out.push(Node::If { branches: b, else_: else_.clone(), on: on.clone() });
                    }
                }
            }
            for j in 0..branches.len() {
                for c in node_list_edits(&branches[j].1, fine) {
                    let mut b = branches.clone();
                    b[j].1 = c;
                    out.push(Node::If { branches: b, else_: else_.clone(), on: on.clone() });
                }
            }
            if let Some(e) = else_ {
                for c in node_list_edits(e, fine) {
                    out.push(Node::If { branches: branches.clone(), else_: Some(c), on: on.clone() });
                }
            }
        }
        Node::For { list, key, item, index, children, on } => {
            if !fine {
                if key.is_some() {
                    out.push(Node::For { list: list.clone(), key: None, item: item.clone(), index: index.clone(), children: children.clone(), on: on.clone() });
                }
                if on.is_some() {
                    out.push(Node::For { list: list.clone(), key: key.clone(), item: item.clone(), index: index.clone(), children: children.clone(), on: None });
                }
            } else {
                for x in expr_edits(list) {
                    out.push(Node::For { list: x, key: key.clone(), item: item.clone(), index: index.clone(), children: children.clone(), on: on.clone() });
                }
            }
            for c in node_list_edits(children, fine) {
                out.push(Node::For { list: list.clone(), key: key.clone(), item: item.clone(), index: index.clone(), children: c, on: on.clone() });
            }
        }
        Node::Block(ch) => {
            for c in node_list_edits(ch, fine) {
                out.push(Node::Block(c));
            }
        }
        Node::TemplateIs { target, data } => {
            if fine {
                for v in attrval_edits(target) {
                    out.push(Node::TemplateIs { target: v, data: data.clone() });
                }
                if let Some(d) = data {
                    for x in expr_edits(d) {
                        if matches!(x, Expr::Obj(_)) {
                            out.push(Node::TemplateIs { target: target.clone(), data: Some(x) });
                        }
                    }
                }
            } else if let AttrVal::Bind(_) = target {
                out.push(Node::TemplateIs { target: AttrVal::Static("t1".into()), data: data.clone() });
            }
        }
        _ => {}
    }
    out
}

// ---------------------------------------------------------------------------------------------
// data edits

fn data_edits(d: &Value) -> Vec<Value> {
    let mut out = vec![];
    if let Some(o) = d.as_object() {
        for (k, v) in o {
            if let Some(a) = v.as_array() {
                for i in 0..a.len() {
                    let mut a2 = a.clone();
                    a2.remove(i);
                    let mut d2 = d.clone();
                    d2[k] = Value::Array(a2);
                    out.push(d2);
                }
                for i in 0..a.len() {
                    if let Some(sub) = a[i].get("sub").and_then(|s| s.as_array()) {
                        if !sub.is_empty() {
                            let mut d2 = d.clone();
                            d2[k][i]["sub"] = json!([]);
                            out.push(d2);
                        }
                    }
                }
            }
        }
    }
    out
}

// ---------------------------------------------------------------------------------------------

pub fn world_candidates(w: &World, stage: usize, step_hint: u64) -> Vec<World> {
    let mut out = vec![];
    match stage {
        0 => {
            // schedule: cut after the violating step, then drop single ops (last first)
            if (step_hint as usize) < w.schedule.len() && step_hint > 0 {
                let mut w2 = w.clone();
                w2.schedule.truncate(step_hint as usize);
                out.push(w2);
            }
            for i in (0..w.schedule.len()).rev() {
                let mut w2 = w.clone();
                w2.schedule.remove(i);
                out.push(w2);
            }
            // turn safe splices into plain ones and batches into single flushes
            for i in 0..w.schedule.len() {
                if w.schedule[i][0] == "splice_safe" {
                    let mut w2 = w.clone();
                    w2.schedule[i][0] = json!("splice");
                    out.push(w2);
                }
            }
        }
        1 => {
            // files, components, knobs
            for i in 0..w.files.len() {
                if w.files[i].path != w.root_path && !w.files[i].path.starts_with("comp/") {
                    let mut w2 = w.clone();
                    w2.files.remove(i);
                    out.push(w2);
                }
            }
            {
                let root_i = w.files.iter().position(|f| f.path == w.root_path).unwrap();
                let r = &w.files[root_i];
                for j in 0..r.templates.len() {
                    let mut w2 = w.clone();
                    w2.files[root_i].templates.remove(j);
                    out.push(w2);
                }
                for j in 0..r.imports.len() {
                    let mut w2 = w.clone();
                    w2.files[root_i].imports.remove(j);
                    out.push(w2);
                }
                for j in 0..r.wxs_ext.len() {
                    let mut w2 = w.clone();
                    w2.files[root_i].wxs_ext.remove(j);
                    w2.scripts.clear();
                    out.push(w2);
                }
                for j in 0..r.wxs_inline.len() {
                    let mut w2 = w.clone();
                    w2.files[root_i].wxs_inline.remove(j);
                    out.push(w2);
                }
            }
            if w.config != Config::default() {
                let mut w2 = w.clone();
                w2.config = Config::default();
                out.push(w2);
                for k in 0..4 {
                    let mut w2 = w.clone();
                    match k {
                        0 => w2.config.update_mode = String::new(),
                        1 => w2.config.backend = "composed".into(),
                        2 => w2.config.data_deep_copy = String::new(),
                        _ => w2.config.prop_deep_copy = String::new(),
                    }
                    if w2.config != w.config {
                        out.push(w2);
                    }
                }
            }
        }
        2 | 3 => {
            let fine = stage == 3;
            for fi in 0..w.files.len() {
                if w.files[fi].raw.is_some() {
                    continue;
                }
                for b in node_list_edits(&w.files[fi].body, fine) {
                    let mut w2 = w.clone();
                    w2.files[fi].body = b;
                    out.push(w2);
                }
                for ti in 0..w.files[fi].templates.len() {
                    for b in node_list_edits(&w.files[fi].templates[ti].1, fine) {
                        let mut w2 = w.clone();
                        w2.files[fi].templates[ti].1 = b;
                        out.push(w2);
                    }
                }
            }
        }
        4 => {
            for d in data_edits(&w.data) {
                let mut w2 = w.clone();
                w2.data = d;
                out.push(w2);
            }
            // unused catalogue components
            let root_src = w.root_file().to_wxml();
            for i in 0..w.components.len() {
                let is = w.components[i]["is"].as_str().unwrap_or("").to_string();
                if is != "root" && !root_src.contains(&format!("<{}", is)) {
                    let mut w2 = w.clone();
                    w2.components.remove(i);
                    w2.files.retain(|f| f.path != format!("comp/{}", is));
                    for c in w2.components.iter_mut() {
                        if c["is"] == "root" {
                            if let Some(u) = c["using"].as_object_mut() {
                                u.remove(&is);
                            }
                        }
                    }
                    out.push(w2);
                }
            }
            if !w.indexed_lists.is_empty() {
                let src: String = w.sources().iter().map(|x| x.1.clone()).collect();
                if !src.contains('[') {
                    let mut w2 = w.clone();
                    w2.indexed_lists.clear();
                    out.push(w2);
                }
            }
        }
        _ => {}
    }
    out
}

pub fn shrink_world(prop: &str, w: &World, class: &str, budget: usize) -> (World, Violation, usize, Vec<String>) {
    let mut cur = w.clone();
    let first = run_explicit(prop, &world_to_json(&cur), false);
    let mut cur_v = match &first.outcome {
        Outcome::Violated(v) if v.class == class => v.clone(),
        _ => Violation { class: class.to_string(), detail: "(violation did not reproduce when re-run before shrinking)".into() },
    };
    let locus_of = |raw: &Value| -> Vec<String> { raw["locus"].as_array().map(|a| a.iter().filter_map(|x| x.as_str().map(String::from)).collect()).unwrap_or_default() };
    let mut locus = locus_of(&first.raw);
    let mut step_hint = first.raw["violation"]["step"].as_u64().unwrap_or(0);
    let mut tried = 0usize;
    let mut progress = true;
    while progress && tried < budget {
        progress = false;
        for stage in 0..5 {
            'stage: loop {
                let cands = world_candidates(&cur, stage, step_hint);
                for c in cands {
                    if tried >= budget {
                        break 'stage;
                    }
                    tried += 1;
                    let r = run_explicit(prop, &world_to_json(&c), false);
                    if let Outcome::Violated(v) = &r.outcome {
                        if v.class == class {
                            cur = c;
                            cur_v = v.clone();
                            locus = locus_of(&r.raw);
                            step_hint = r.raw["violation"]["step"].as_u64().unwrap_or(0);
                            progress = true;
                            continue 'stage;
                        }
                    }
                }
                break;
            }
        }
    }
    (cur, cur_v, tried, locus)
}

/// A violation is a listed finding iff its class is one of the finding's classes, its minimised
/// world's tags contain the finding's trigger, the first difference lies where the finding says
/// (locus), and - when the finding lists benign tags - nothing outside trigger ∪ benign is left.
pub fn match_known<'a>(known: &'a [KnownFinding], prop: &str, class: &str, tags: &BTreeSet<String>, locus: &[String]) -> Option<&'a KnownFinding> {
    known.iter().find(|k| {
        k.kind == "finding"
            && k.property == prop
            && (k.class_prefix.is_empty() || class.starts_with(&k.class_prefix))
            && (k.classes.is_empty() || k.classes.iter().any(|c| c == class))
            && !(k.trigger.is_empty() && k.trigger_any.is_empty())
            && k.source_regex.is_empty()
            && k.trigger.iter().all(|t| tags.contains(t))
            && (k.trigger_any.is_empty() || k.trigger_any.iter().any(|t| tags.contains(t)))
            && k.locus_contains.iter().all(|l| locus.iter().any(|x| x == l))
            && (k.benign.is_empty() || tags.iter().all(|t| k.trigger.contains(t) || k.trigger_any.contains(t) || k.benign.contains(t)))
    })
}
