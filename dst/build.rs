// The simulator owns OS entropy: std looks `getrandom` up dynamically (weak symbol),
// so the binary must export its own definition.
fn main() {
    println!("cargo:rustc-link-arg-bins=-rdynamic");
}
