import { register } from 'node:module'
register('./hooks.mjs', import.meta.url)
