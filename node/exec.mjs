// Executor of the runtime-world simulator. Reads NDJSON jobs on stdin, writes NDJSON results.
// It makes NO random choice: every job is a fully explicit world + schedule. The system under
// simulation is the real glass-easel runtime (type-stripped at load) running the real compiler
// output; this file only drives it, observes it, and evaluates the oracles.

import { createInterface } from 'node:readline'

// ---------------------------------------------------------------- simulated timers and clock
const SIM = { now: 1_000_000, seq: 0, queue: [], fired: 0 }
globalThis.setTimeout = (fn, ms, ...args) => {
  SIM.seq += 1
  SIM.queue.push({ at: SIM.now + (Number(ms) || 0), seq: SIM.seq, fn, args })
  return SIM.seq
}
globalThis.clearTimeout = (id) => {
  SIM.queue = SIM.queue.filter((e) => e.seq !== id)
}
globalThis.setInterval = () => 0
globalThis.clearInterval = () => {}
Date.now = () => SIM.now
function drainTimers(limit = 1000) {
  let n = 0
  while (SIM.queue.length && n < limit) {
    SIM.queue.sort((a, b) => a.at - b.at || a.seq - b.seq)
    const ev = SIM.queue.shift()
    SIM.now = Math.max(SIM.now, ev.at)
    ev.fn(...ev.args)
    n += 1
    SIM.fired += 1
  }
  return n
}

const SRC = (process.env.GE_RT_ROOT || process.env.GE_REPO_DIR || '/repo') + '/glass-easel/src'
const ge = await import(SRC + '/index.ts')
const pgwMod = await import(SRC + '/tmpl/proc_gen_wrapper.ts')
const dataProxyMod = await import(SRC + '/data_proxy.ts')

let warnCount = 0
ge.addGlobalWarningListener(() => {
  warnCount += 1
  return false
})
let errorCount = 0
let lastError = null
ge.addGlobalErrorListener((e) => {
  errorCount += 1
  lastError = e
  return false
})

// ---------------------------------------------------------------- value coding
const dec = (v) => {
  if (v === null || typeof v !== 'object') return v
  if (Array.isArray(v)) return v.map(dec)
  if (v.$u === 1) return undefined
  if (v.$nan === 1) return NaN
  if (v.$nz === 1) return -0
  const o = {}
  for (const k of Object.keys(v)) o[k] = dec(v[k])
  return o
}
const encReplacer = (k, v) => {
  if (v === undefined) return '$undef'
  if (typeof v === 'number') {
    if (Number.isNaN(v)) return '$nan'
    if (Object.is(v, -0)) return '$negzero'
    if (!Number.isFinite(v)) return v > 0 ? '$inf' : '$-inf'
  }
  if (typeof v === 'function') return '$fn:' + (v.__id || v.name || '')
  return v
}
const enc = (v) => JSON.stringify(v === undefined ? '$undef' : v, encReplacer)
const clone = (v) => {
  if (v === null || typeof v !== 'object') return v
  if (Array.isArray(v)) {
    const a = new Array(v.length)
    for (let i = 0; i < v.length; i += 1) if (i in v) a[i] = clone(v[i])
    return a
  }
  const o = {}
  for (const k of Object.keys(v)) o[k] = clone(v[k])
  return o
}
const fnv = (s) => {
  // two independent 32-bit FNV-1a lanes (fast; BigInt arithmetic was a hotspot)
  let h1 = 0x811c9dc5
  let h2 = 0x01000193 ^ 0x5bd1e995
  for (let i = 0; i < s.length; i += 1) {
    const c = s.charCodeAt(i)
    h1 = Math.imul(h1 ^ (c & 0xff), 0x01000193)
    h1 = Math.imul(h1 ^ (c >> 8), 0x01000193)
    h2 = Math.imul(h2 ^ c, 0x5bd1e995)
    h2 ^= h2 >>> 13
  }
  return (h1 >>> 0).toString(16).padStart(8, '0') + (h2 >>> 0).toString(16).padStart(8, '0')
}

// ---------------------------------------------------------------- update-path-tree helpers
// serialise U including the array prototypes the runtime uses for splices
const serU = (u, depth = 0) => {
  if (u === true) return true
  if (u === undefined) return '$undef'
  if (u === null || typeof u !== 'object') return u
  if (depth > 12) return '$deep'
  const o = {}
  const proto = Object.getPrototypeOf(u)
  if (Array.isArray(proto)) {
    const a = []
    for (let i = 0; i < proto.length; i += 1) a.push(i in proto ? serU(proto[i], depth + 1) : '$hole')
    o.$proto = a
  }
  if (Array.isArray(u)) {
    const a = []
    for (let i = 0; i < u.length; i += 1) a.push(i in u ? serU(u[i], depth + 1) : '$hole')
    return a
  }
  for (const k of Object.keys(u)) o[k] = serU(u[k], depth + 1)
  return o
}
// shape of an update-path tree: field names kept, list indexes abstracted to '#'
const shapeU = (u, depth = 0) => {
  if (u === true) return 'T'
  if (u === undefined || u === null) return '_'
  if (typeof u !== 'object' || depth > 8) return '?'
  const parts = []
  const proto = Object.getPrototypeOf(u)
  if (Array.isArray(proto)) {
    const kinds = new Set()
    for (let i = 0; i < proto.length; i += 1) kinds.add(i in proto ? shapeU(proto[i], depth + 1) : '_')
    parts.push('[' + [...kinds].sort().join('|') + ']')
  }
  for (const k of Object.keys(u).sort()) parts.push((/^\d+$/.test(k) ? '#' : k) + ':' + shapeU(u[k], depth + 1))
  return '{' + [...new Set(parts)].join(',') + '}'
}
// shape of a node tree: tags only
const shapeTree = (n, depth = 0) => {
  if (n instanceof ge.TextNode) return 't'
  if (depth > 12) return '?'
  return (n instanceof ge.VirtualNode ? '(' + n.is + ')' : n.is) + '[' + n.childNodes.map((c) => shapeTree(c, depth + 1)).join('') + ']'
}
// the protocol's own descent: Z(a,b) = a===true ? true : a ? a[b] : undefined
const coveredStrict = (U, p) => {
  let cur = U
  for (const k of p) {
    if (cur === true) return true
    if (!cur) return false
    cur = cur[k]
  }
  return cur === true
}
const covered = (U, p) => {
  let cur = U
  for (const k of p) {
    if (cur === true) return true
    if (!cur) return false
    cur = cur[k]
  }
  return !!cur
}
const isObj = (v) => v !== null && typeof v === 'object'
// paths whose value changed kind (primitive <-> object, array <-> plain object): everything below
// them differs too (keys that vanish, prototype members of a former string, ...), so only a `true`
// mark at or above them covers the change
let STRICT = null
const diffPaths = (a, b, p, out) => {
  if (STRICT && (isObj(a) || isObj(b)) && !(isObj(a) && isObj(b) && Array.isArray(a) === Array.isArray(b))) {
    const prim = isObj(a) ? b : a
    // from/to null or undefined nothing hangs below the old value: the new keys are the diff
    if (prim !== null && prim !== undefined) STRICT.push(p)
    else if (isObj(a) && !isObj(b)) STRICT.push(p)
  }
  if (isObj(a) && isObj(b) && Array.isArray(a) === Array.isArray(b)) {
    if (Array.isArray(a)) {
      if (a.length !== b.length) out.push([...p, 'length'])
      const n = Math.max(a.length, b.length)
      for (let i = 0; i < n; i += 1) diffPaths(a[i], b[i], [...p, i], out)
    } else {
      const keys = new Set([...Object.keys(a), ...Object.keys(b)])
      for (const k of keys) diffPaths(a[k], b[k], [...p, k], out)
    }
  } else if (typeof a === 'function' && typeof b === 'function') {
    if (a !== b) out.push(p)
  } else if (!Object.is(a, b)) {
    out.push(p)
    // an object appears where nothing (or null) was, or vanishes: every member read through the
    // old/new nothing was undefined and now is not, so each member path differs as well
    const o = isObj(a) && (b === null || b === undefined) ? a : isObj(b) && (a === null || a === undefined) ? b : null
    if (o) {
      if (Array.isArray(o)) out.push([...p, 'length'])
      for (const k of Object.keys(o)) diffPaths(undefined, o[k], [...p, k], out)
    }
  }
  return out
}
const getPath = (d, p) => {
  let cur = d
  for (const k of p) {
    if (cur === null || cur === undefined) return undefined
    cur = cur[k]
  }
  return cur
}
const deepEq = (a, b) => diffPaths(a, b, [], []).length === 0

// Reference for the precondition of C06/C07: which data paths MUST be marked for one batch of
// changes, independent of how the runtime builds its update-path tree. Replaces require every
// differing leaf path; a splice requires the inserted indices and `length` (retained elements keep
// their identity: wx:for aligns them), plus - for lists the template also reads by index outside a
// loop over them - every shifted index. Returns null when the batch cannot be modelled.
function matchesPattern(p, pat) {
  if (p.length !== pat.length) return false
  for (let i = 0; i < p.length; i += 1) if (pat[i] !== '*' && String(pat[i]) !== String(p[i])) return false
  return true
}
function plainDiff(before, after) {
  const req = []
  req.strict = []
  STRICT = req.strict
  try {
    diffPaths(before, after, [], req)
  } finally {
    STRICT = null
  }
  return req
}
function requiredMarks(before, changes, after, indexedLists) {
  const sim = clone(before)
  let required = []
  required.strict = []
  for (const [path, newVal, spliceIndex, spliceDel] of changes) {
    const isSplice = spliceDel !== undefined
    // walk to the parent, creating containers the way the runtime does
    let parent = sim
    let ok = true
    const snapshot = isSplice ? null : clone(sim)
    for (let i = 0; i < path.length - 1; i += 1) {
      const k = path[i]
      const next = path[i + 1]
      let child = parent[k]
      if (Number.isFinite(next)) {
        if (!Object.prototype.hasOwnProperty.call(parent, k) || !Array.isArray(child)) {
          if (isSplice) {
            ok = false
            break
          }
          child = parent[k] = []
        }
      } else if (!Object.prototype.hasOwnProperty.call(parent, k) || child === null || typeof child !== 'object' || Array.isArray(child)) {
        if (Array.isArray(child) && next === 'length' && i === path.length - 2) {
          // a synthesized `length` mark
        } else {
          if (isSplice) {
            ok = false
            break
          }
          child = parent[k] = {}
        }
      }
      parent = child
    }
    if (!ok) return null
    const last = path[path.length - 1]
    if (isSplice) {
      const arr = parent[last]
      if (!Array.isArray(arr)) continue // the runtime ignores it (with a warning)
      const at = spliceIndex
      const ins = newVal
      const shift = ins.length - spliceDel
      const next = []
      for (const r of required) {
        if (r.length > path.length && matchesPattern(r.slice(0, path.length), path) && typeof r[path.length] === 'number') {
          const idx = r[path.length]
          if (idx >= at && idx < at + spliceDel) continue
          if (idx >= at + spliceDel) {
            const r2 = r.slice()
            r2[path.length] = idx + shift
            next.push(r2)
            continue
          }
        }
        next.push(r)
      }
      next.strict = required.strict
      required = next
      arr.splice(at, spliceDel, ...clone(ins))
      for (let j = at; j < at + ins.length; j += 1) required.push([...path, j])
      if (shift !== 0) {
        required.push([...path, 'length'])
        if (indexedLists && indexedLists.some((pat) => matchesPattern(path, pat))) {
          // read by index somewhere: every position whose occupant changed, including positions
          // that no longer exist
          // (strict: the element at such a position is another one now, everything below differs)
          const end = Math.max(arr.length, arr.length - shift)
          for (let j = at + ins.length; j < end; j += 1) required.strict.push([...path, j])
        }
      }
    } else {
      if (last === 'length' && Array.isArray(parent) && newVal === true) continue // synthesized mark
      parent[last] = clone(newVal)
      STRICT = required.strict
      try {
        diffPaths(snapshot, sim, [], required)
      } finally {
        STRICT = null
      }
    }
  }
  if (!deepEq(sim, after)) return null
  return required
}

// ---------------------------------------------------------------- world context + interposers
let CTX = null // per job

const origBindingMapUpdate = pgwMod.ProcGenWrapper.prototype.bindingMapUpdate
pgwMod.ProcGenWrapper.prototype.bindingMapUpdate = function (field, data, list) {
  const ctx = CTX
  const st = ctx && ctx.byWrapper.get(this)
  if (ctx && st) st.curData = data
  const r = origBindingMapUpdate.call(this, field, data, list)
  if (ctx && st && !ctx.quiet) {
    if (r) {
      ctx.log.push(`fast ${st.tag} ${field}`)
      ctx.flushEvents.push({ kind: 'fast', st, field, data, batch: ctx.batchStack[ctx.batchStack.length - 1] })
    } else {
      ctx.log.push(`fast-declined ${st.tag} ${field}`)
    }
  }
  return r
}

// every batch of changes the runtime hands to a template instance is observed here (outside /repo)
const origSetUpdateListener = dataProxyMod.DataGroup.prototype.setUpdateListener
dataProxyMod.DataGroup.prototype.setUpdateListener = function (listener) {
  return origSetUpdateListener.call(this, (data, changes) => {
    const ctx = CTX
    if (!ctx || ctx.quiet) return listener(data, changes)
    const batch = { changes: changes.map((c) => [c[0].slice(), c[1], c[2], c[3]]) }
    ctx.batchStack.push(batch)
    try {
      return listener(data, changes)
    } finally {
      ctx.batchStack.pop()
    }
  })
}

const PATH_METHODS = { r: [3, 4], v: [7], p: [3], l: [3] }

function makeRProxy(R, st, ctx) {
  if (st.proxy) return st.proxy
  const wrapped = Object.create(null)
  const proxy = new Proxy(R, {
    get(t, k) {
      if (typeof k === 'string' && PATH_METHODS[k]) {
        if (wrapped[k]) return wrapped[k]
        const f = t[k]
        wrapped[k] = (...a) => {
          onPathCall(ctx, st, k, a)
          if (k === 'l' && !ctx.quiet) ctx.log.push(`R.l ${st.tag} ${a[1]} ${enc(a[2])}`)
          if (k === 'v' && a[0]) {
            // the binding the element holds now: what a delivered event must be handled with
            let m = ctx.evBindings.get(a[0])
            if (!m) ctx.evBindings.set(a[0], (m = new Map()))
            m.set(`${a[1]}:${a[3] ? 1 : 0}${a[4] ? 1 : 0}${a[5] ? 1 : 0}`, { ev: a[1], value: a[2], path: a[7] })
          }
          const el = a[0]
          const before = k === 'r' && el && el._$modelBindingListeners ? el._$modelBindingListeners[a[1]] : undefined
          const ret = f.apply(t, a)
          if (k === 'r' && a[3] === null && before && el._$modelBindingListeners && el._$modelBindingListeners[a[1]] === before) {
            // the expression is not assignable any more, yet the listener made for the old path stays
            c11Violation(ctx, 'listener_kept_after_path_withdrawn', `R.r ${a[1]} on <${el.is}> was given a null model path (the expression is not assignable now) but the listener registered for the previous path is still in place`)
          }
          return ret
        }
        return wrapped[k]
      }
      if (k === 'wl') {
        // worklet directives leave no trace in the node tree: keep one for the serialiser
        return (el, name, value) => {
          if (el) {
            if (!el._$verifWorklet) el._$verifWorklet = {}
            el._$verifWorklet[name] = value
          }
          return t.wl(el, name, value)
        }
      }
      const v = t[k]
      return typeof v === 'function' ? v.bind(t) : v
    },
    set(t, k, v) {
      t[k] = v
      return true
    },
  })
  st.proxy = proxy
  return proxy
}

function onPathCall(ctx, st, method, a) {
  const elem = a[0]
  const name = a[1]
  const value = a[2]
  if (method === 'r') {
    const modelPath = a[3]
    const generalPath = a[4]
    ctx.counters['probe.R.r'] = (ctx.counters['probe.R.r'] || 0) + 1
    if (modelPath !== undefined) {
      ctx.counters['probe.R.r.model_path_' + (modelPath === null ? 'null' : 'given')] = (ctx.counters['probe.R.r.model_path_' + (modelPath === null ? 'null' : 'given')] || 0) + 1
      let m = ctx.modelPaths.get(elem)
      if (!m) ctx.modelPaths.set(elem, (m = Object.create(null)))
      m[name] = { path: modelPath, value, st }
      if (!ctx.quiet) ctx.log.push(`R.r ${st.tag} ${name} model=${enc(modelPath)}`)
      if (modelPath) checkDataPath(ctx, st, 'model:' + name, modelPath, value)
      if (modelPath && (name === 'nv' || name === 'nval')) {
        // the generator binds these two names only to expressions that are not assignable
        c11Violation(ctx, 'model_path_for_non_assignable', `model:${name} in ${st.tag}: the expression is not assignable (arithmetic, literal, call, loop index or an item of a list without a data path), yet it was given the model path ${enc(modelPath)}`)
      }
    }
    if (generalPath !== undefined && generalPath !== null) {
      if (!ctx.quiet) ctx.log.push(`R.r ${st.tag} ${name} general=${enc(generalPath)}`)
      checkGeneralPath(ctx, st, 'attr:' + name, generalPath, value)
    }
  } else {
    const idx = PATH_METHODS[method][0]
    const p = a[idx]
    ctx.counters['probe.R.' + method] = (ctx.counters['probe.R.' + method] || 0) + 1
    if (p !== undefined && p !== null) {
      if (!ctx.quiet) ctx.log.push(`R.${method} ${st.tag} ${name} general=${enc(p)}`)
      checkGeneralPath(ctx, st, method + ':' + name, p, value)
    }
    // (a path for a value that is not a function - a module object, a constant member - is not
    // forbidden by the property: a pure access chain into a script has a script path; what the
    // path must name is checked by checkGeneralPath above)
  }
}

function c11Violation(ctx, cls, detail) {
  if (ctx.quiet) return
  if (!ctx.c11) ctx.c11 = { class: cls, detail }
}

// model path: a data path relative to the data object the generated code is running with
// a path is addressable in D when no proper prefix of it ends in a primitive (a count or a string
// used as a for-list has items but no locations)
function addressable(D, path) {
  let cur = D
  for (let i = 0; i < path.length; i += 1) {
    if (cur === null || cur === undefined) return true
    if (typeof cur !== 'object') return false
    cur = cur[path[i]]
  }
  return true
}
function checkDataPath(ctx, st, what, path, value) {
  ctx.counters['probe.c11.model_get_checked'] = (ctx.counters['probe.c11.model_get_checked'] || 0) + 1
  const D = st.curData
  if (!addressable(D, path)) {
    ctx.counters['probe.c11.path_through_primitive'] = (ctx.counters['probe.c11.path_through_primitive'] || 0) + 1
    return
  }
  const got = getPath(D, path)
  if (!Object.is(got, value)) {
    c11Violation(ctx, 'model_path_get_mismatch', `${what} in ${st.tag}: emitted path ${enc(path)} addresses ${enc(got)} but the expression evaluated to ${enc(value)}`)
  }
}

// general path: [0, ...dataPath] | [1, absPath, ...members] | [2, path, module, ...members]
function checkGeneralPath(ctx, st, what, path, value) {
  ctx.counters['probe.c11.general_checked'] = (ctx.counters['probe.c11.general_checked'] || 0) + 1
  if (!Array.isArray(path)) {
    c11Violation(ctx, 'general_path_not_array', `${what}: ${enc(path)}`)
    return
  }
  const kind = path[0]
  if (kind === 0) {
    const got = getPath(st.curData, path.slice(1))
    if (!Object.is(got, value)) c11Violation(ctx, 'general_data_path_get_mismatch', `${what} in ${st.tag}: path ${enc(path)} addresses ${enc(got)} but the expression evaluated to ${enc(value)}`)
  } else if (kind === 1 || kind === 2) {
    const id = kind === 1 ? `${path[1]}:${path.slice(2).join('.')}` : `${path[1]}#${path[2]}:${path.slice(3).join('.')}`
    // every function exported by a generated script carries its own address in __id
    if (typeof value === 'function') {
      if (value.__id !== undefined && value.__id !== id) c11Violation(ctx, 'script_path_names_other_function', `${what} in ${st.tag}: path ${enc(path)} names ${id} but the handler is ${value.__id}`)
      ctx.counters['probe.c11.script_path_checked'] = (ctx.counters['probe.c11.script_path_checked'] || 0) + 1
    } else if (value !== undefined && isObj(value) === false) {
      // a path into a script that evaluates to a primitive: still must name the member read
      const exp = ctx.scriptValues && ctx.scriptValues[id]
      if (exp !== undefined && !Object.is(exp, value)) c11Violation(ctx, 'script_path_names_other_value', `${what}: path ${enc(path)} names ${id}=${enc(exp)} but value is ${enc(value)}`)
    }
  } else {
    c11Violation(ctx, 'general_path_bad_prefix', `${what}: ${enc(path)}`)
  }
}

function wrapContent(content, tag, ctx) {
  return (name) => {
    const pg = content(name)
    if (typeof pg !== 'function') return pg
    return (R, C, D, U) => {
      let st = ctx.byWrapper.get(R)
      if (!st) {
        ctx.wrapperSeq += 1
        st = { tag: `${tag}#${ctx.wrapperSeq}`, prevData: undefined, curData: undefined, proxy: null, comp: tag }
        ctx.byWrapper.set(R, st)
        // events are delivered to the harness, never to user code
        if (typeof R.setEventListenerWrapper === 'function') {
          R.setEventListenerWrapper((caller, ev, f, path) => {
            ctx.delivered.push({ f, path })
            return undefined
          })
        }
      }
      st.curData = D
      if (!ctx.quiet) {
        ctx.log.push(`${C ? 'create' : 'update'} ${st.tag} U=${JSON.stringify(serU(U))}`)
        if (!C) {
          ctx.flushEvents.push({ kind: 'tree', st, U, data: D, batch: ctx.batchStack[ctx.batchStack.length - 1] })
          if (ctx.uShapes.size < 24) ctx.uShapes.add(shapeU(U))
        }
      }
      const RP = makeRProxy(R, st, ctx)
      let ret
      try {
        ret = pg(RP, C, D, U)
      } catch (e) {
        // an exception that escapes the generated code itself (not a user handler)
        if (!ctx.genThrow) ctx.genThrow = String(e && e.message)
        throw e
      }
      // updaters of the binding map run later with their own D: keep curData right for them
      if (ret && ret.B) {
        const B = ret.B
        for (const f of Object.keys(B)) {
          const arr = B[f]
          for (let i = 0; i < arr.length; i += 1) {
            const orig = arr[i]
            if (typeof orig === 'function' && !orig.__wrapped) {
              const w = (d, e, t) => {
                st.curData = d
                return orig(d, e, t)
              }
              w.__wrapped = true
              arr[i] = w
            }
          }
        }
      }
      return ret
    }
  }
}

// ---------------------------------------------------------------- serialisation of the node tree
// in a lock-step run every instance goes through the same history, so the order in which the
// listeners of one event were registered is content (it is the order they are called in)
let LISTENERS_IN_ORDER = false
function serListeners(n) {
  const et = n._$eventTarget
  if (!et) return undefined
  const out = {}
  let any = false
  const add = (tbl, prefix) => {
    if (!tbl) return
    for (const k of Object.keys(tbl)) {
      const arr = tbl[k].funcArr._$arr
      if (arr && arr.length) {
        any = true
        // a multiset: re-registering an unchanged dynamic listener moves it to the end, which is
        // over-approximation, not staleness
        out[prefix + k] = arr.map((x) => (x.f.name || '') + '/' + x.data)
        if (!LISTENERS_IN_ORDER) out[prefix + k].sort()
      }
    }
  }
  const sorted = () => {
    // (the order in which event names were first used is history, not content)
    const o2 = {}
    for (const k of Object.keys(out).sort()) o2[k] = out[k]
    return o2
  }
  add(et.listeners, '')
  add(et.captureListeners, 'capture:')
  // the l-value paths the generated code passed last for the event bindings of this element
  const rec = CTX && CTX.evBindings.get(n)
  if (rec && any) {
    const paths = [...rec.values()].filter((r) => r.path !== undefined && r.path !== null).map((r) => r.ev + '@' + enc(r.path))
    if (paths.length) out['@paths'] = paths.sort()
  }
  return any ? sorted() : undefined
}

function ser(n) {
  if (n instanceof ge.TextNode) return { x: n.textContent }
  const o = {}
  if (n instanceof ge.VirtualNode) o.v = n.is
  else o.t = n.is
  if (n.id) o.id = n.id
  if (n.slot) o.slot = n.slot
  const cls = n.class
  if (cls) o.class = cls
  const style = n.style
  if (style) o.style = style
  if (n instanceof ge.NativeNode) {
    const at = n.attributes
    if (at.length) o.attrs = at.map((a) => [a.name, a.value])
    const ml = n._$modelBindingListeners
    if (ml && Object.keys(ml).length) {
      // a listener that was given no path (or `null`: not assignable now) is a no-op
      const rec = CTX && CTX.modelPaths.get(n)
      const eff = Object.keys(ml).filter((k) => !rec || !rec[k] || rec[k].path)
      // with the path the listener writes to (the one the generated code passed last)
      if (eff.length) o.model = eff.map((k) => (rec && rec[k] && rec[k].path ? k + '@' + enc(rec[k].path) : k))
    }
  }
  const ds = n.dataset
  if (ds && Object.keys(ds).length) o.dataset = ds
  if (n._$marks && Object.keys(n._$marks).length) o.marks = n._$marks
  if (n._$verifWorklet) o.worklet = n._$verifWorklet
  const ls = serListeners(n)
  if (ls) o.listeners = ls
  if (n._$slotName !== null && n._$slotName !== undefined) {
    o.slotName = n._$slotName
    if (n._$slotValues) {
      // a slot value that is undefined reads the same as one that was never set
      const sv = {}
      // (key order is insertion history, not content)
      // (the runtime keeps the old value when old === new, so -0 and 0 are one value here)
      for (const k of Object.keys(n._$slotValues).sort()) if (n._$slotValues[k] !== undefined) sv[k] = Object.is(n._$slotValues[k], -0) ? 0 : n._$slotValues[k]
      if (Object.keys(sv).length) o.slotValues = sv
    }
  }
  if (n instanceof ge.Component) {
    o.data = n.data
    const dp = n._$dataGroup && n._$dataGroup._$modelBindingListener
    if (dp && Object.keys(dp).length) o.model = Object.keys(dp)
    const sr = n.getShadowRoot()
    if (sr) o.shadow = ser(sr)
  }
  if (n instanceof ge.Component && n.getShadowRoot() && n.getShadowRoot().getSlotMode && n.getShadowRoot().getSlotMode() === 3 /* SlotMode.Dynamic */) {
    // dynamic slots: the order of the host's child list is bookkeeping (new slot content is
    // appended); what is rendered is the content of each slot, so children are listed per slot in
    // composed order, then whatever is in no slot
    const seen = new Set()
    const ordered = []
    const walk = (m) => {
      if (m.parentNode === n && !seen.has(m)) {
        seen.add(m)
        ordered.push(m)
        return
      }
      if (m instanceof ge.TextNode) return
      m.forEachComposedChild((c) => {
        walk(c)
      })
    }
    walk(n.getShadowRoot())
    for (const c of n.childNodes) if (!seen.has(c)) ordered.push(c)
    o.c = ordered.map(ser)
  } else {
    o.c = n.childNodes.map(ser)
  }
  return o
}
function serComposed(n) {
  if (n instanceof ge.TextNode) return n.textContent
  const o = [n instanceof ge.VirtualNode ? '(' + n.is + ')' : n.is]
  n.forEachComposedChild((c) => {
    o.push(serComposed(c))
  })
  return o
}
function serBackend(n) {
  if (n.nodeType === n.TEXT_NODE) return n.textContent
  return [n.tagName].concat(n.childNodes.map(serBackend))
}
const S = (root) => {
  const o = { shadow: ser(root.getShadowRoot()), composed: serComposed(root) }
  const be = root.getBackendElement && root.getBackendElement()
  if (be && Array.isArray(be.childNodes) && typeof be.tagName === 'string') o.backend = serBackend(be)
  return enc(o)
}
// (pl / pf: the parsed serialisations that were compared - each was made under its own context, so
// the model paths in them are the ones each instance really holds)
const locusOf = (liveRoot, freshRoot, pl, pf) => {
  const a = pl ? pl.shadow : ser(liveRoot.getShadowRoot())
  const b = pf ? pf.shadow : ser(freshRoot.getShadowRoot())
  if (enc(a) === enc(b)) {
    // the shadow trees agree; the composed trees (what is rendered where) do not
    const walk = (x, y, path) => {
      if (!Array.isArray(x) || !Array.isArray(y)) return [...path, '#text']
      const here = [...path, String(x[0]).replace(/^\((.*)\)$/, '($1)')]
      if (x[0] !== y[0]) return [...here, '@tag']
      for (let i = 1; i < Math.max(x.length, y.length); i += 1) {
        if (x[i] === undefined || y[i] === undefined) return [...here, '@children']
        if (enc(x[i]) !== enc(y[i])) return walk(x[i], y[i], here)
      }
      return here
    }
    const ca = pl ? pl.composed : serComposed(liveRoot)
    const cb = pf ? pf.composed : serComposed(freshRoot)
    // the runtime's own composed trees agree as well: what differs is the child order the backend
    // was given (only the recording backend shows that)
    if (enc(ca) === enc(cb)) return ['backend', '@children']
    return ['composed', ...walk(ca, cb, [])]
  }
  return firstDiffLocus(a, b)
}

// ---------------------------------------------------------------- building instances
const TYPE = { String, Number, Boolean, Array, Object, Function }
const backends = {}
// the repository's strict in-memory composed backend (tests/base/composed_backend.ts): it keeps the
// backend's own child lists, so the ORDER in which the runtime inserted nodes is observable
let RecordedBackend = null
try {
  RecordedBackend = await import(SRC.replace(/src$/, 'tests/base/composed_backend.ts'))
} catch (e) {
  RecordedBackend = null
}
function backendOf(kind) {
  if (kind === 'recorded') {
    if (RecordedBackend) return new RecordedBackend.Context()
    kind = 'composed'
  }
  if (!backends[kind]) backends[kind] = kind === 'shadow' ? new ge.EmptyBackendContext() : new ge.EmptyComposedBackendContext()
  return backends[kind]
}

function evalBundle(js) {
  // newlines matter (WXS runtime relies on ASI): never flatten
  return new Function('return ' + js)()
}

// A child that normalises a model-bound property in a data observer (a slider clamping its value
// to `max`): the observer's own write goes back to the host through the model listener, too.
function clampObservers(c) {
  if (!c.clamp) return undefined
  const { prop, max } = c.clamp
  return {
    [`${prop}, ${max}`]: function (v, m) {
      if (typeof v === 'number' && typeof m === 'number' && v > m) this.setData({ [prop]: m })
    },
  }
}

function createRoot(job, groupList, ctx, data, childState) {
  const cs = new ge.ComponentSpace()
  const cfg = job.config || {}
  let rootDef = null
  for (const c of job.components) {
    const properties = {}
    for (const [k, p] of Object.entries(c.properties || {})) {
      if (p.type === 'any') properties[k] = { type: null, value: dec(p.value) }
      else properties[k] = { type: TYPE[p.type], value: dec(p.value) }
    }
    const options = { ...(c.options || {}) }
    if (cfg.dataDeepCopy) options.dataDeepCopy = cfg.dataDeepCopy
    if (cfg.propertyPassingDeepCopy) options.propertyPassingDeepCopy = cfg.propertyPassingDeepCopy
    const methods = {}
    for (const m of c.methods || []) {
      methods[m] = function (ev) {
        if (ctx && !ctx.quiet) ctx.log.push(`method ${c.is}.${m}`)
      }
    }
    const content = groupList[c.path]
    if (typeof content !== 'function') throw new Error('no template ' + c.path)
    const template = { groupList, content: ctx ? wrapContent(content, c.is, ctx) : content }
    if (cfg.updateMode) template.updateMode = cfg.updateMode
    if (cfg.fallbackListenerOnNativeNode) template.fallbackListenerOnNativeNode = true
    const def = cs.defineComponent({
      is: c.is,
      using: c.using || {},
      generics: c.generics,
      options,
      properties,
      observers: clampObservers(c),
      // a child's own state (changed by `child_state` ops) is what new instances start with, in the
      // live world and in every reference creation alike
      data: c.root ? data : () => clone(childState && childState[c.is] !== undefined ? childState[c.is] : dec(c.data || {})),
      methods,
      template,
    })
    if (c.root) rootDef = def
  }
  if (!rootDef) throw new Error('no root component')
  return ge.Component.createWithContext('root', rootDef.general(), backendOf(cfg.backend || 'composed'))
}

// A child component's "fresh creation" inside its host is not a pure creation: the runtime creates it
// with default property values and then updates it. The pure reference for a child is the same
// component created on its own with the current property values as its creation-time data.
function standaloneChildShadow(job, groupList, childIs, props, childState) {
  const ctx = newCtx(true)
  const saved = CTX
  CTX = ctx
  try {
    const cs = new ge.ComponentSpace()
    const cfg = job.config || {}
    let target = null
    for (const c of job.components) {
      if (c.root) continue
      const properties = {}
      for (const [k, p] of Object.entries(c.properties || {})) {
        const v = c.is === childIs && Object.prototype.hasOwnProperty.call(props, k) ? clone(props[k]) : dec(p.value)
        properties[k] = { type: p.type === 'any' ? null : TYPE[p.type], value: v }
      }
      const options = { ...(c.options || {}) }
      if (cfg.dataDeepCopy) options.dataDeepCopy = cfg.dataDeepCopy
      if (cfg.propertyPassingDeepCopy) options.propertyPassingDeepCopy = cfg.propertyPassingDeepCopy
      const content = groupList[c.path]
      if (typeof content !== 'function') throw new Error('no template ' + c.path)
      const template = { groupList, content: wrapContent(content, c.is, ctx) }
      if (cfg.updateMode) template.updateMode = cfg.updateMode
      const own = childState && childState[c.is] !== undefined ? childState[c.is] : dec(c.data || {})
      const def = cs.defineComponent({ is: c.is, using: c.using || {}, options, properties, observers: clampObservers(c), data: clone(own), methods: {}, template })
      if (c.is === childIs) target = def
    }
    if (!target) return null
    const inst = ge.Component.createWithContext(childIs, target.general(), backendOf(cfg.backend || 'composed'))
    return enc(ser(inst.getShadowRoot()))
  } finally {
    CTX = saved
  }
}

function freshTree(job, groupList, data, childState) {
  const ctx = newCtx(true)
  const saved = CTX
  CTX = ctx
  try {
    const root = createRoot(job, groupList, ctx, clone(data), childState ? clone(childState) : undefined)
    return { s: S(root), ctx, root }
  } finally {
    CTX = saved
  }
}

function newCtx(quiet) {
  return {
    quiet,
    log: [],
    counters: Object.create(null),
    byWrapper: new WeakMap(),
    wrapperSeq: 0,
    modelPaths: new WeakMap(),
    flushEvents: [],
    genThrow: null,
    uShapes: new Set(),
    treeShapes: new Set(),
    batchStack: [],
    c11: null,
    expectNoPath: false,
    scriptValues: null,
    evBindings: new WeakMap(),
    delivered: [],
    childState: {},
  }
}

// ---------------------------------------------------------------- op resolution (pure function of live state)
function resolvePath(data, path) {
  const out = []
  let cur = data
  for (const seg of path) {
    if (seg !== null && typeof seg === 'object') {
      if (!Array.isArray(cur) || cur.length === 0) return null
      const i = seg.i % cur.length
      out.push(i)
      cur = cur[i]
    } else {
      out.push(seg)
      cur = cur === null || cur === undefined ? undefined : cur[seg]
    }
  }
  return out
}

function collectModelListeners(root) {
  // document order over the root's shadow tree; both native nodes and child components
  const out = []
  const walk = (n) => {
    if (n instanceof ge.TextNode) return
    if (n instanceof ge.NativeNode) {
      const ml = n._$modelBindingListeners
      if (ml) for (const k of Object.keys(ml)) out.push({ node: n, name: k, fn: ml[k], kind: 'native' })
    } else if (n instanceof ge.Component) {
      const ml = n._$dataGroup && n._$dataGroup._$modelBindingListener
      if (ml) for (const k of Object.keys(ml)) out.push({ node: n, name: k, fn: ml[k], kind: 'component' })
      // inputs inside a child write to the child's data (and on through its model-bound property)
      const sr = n.getShadowRoot()
      if (sr && n !== root) sr.childNodes.forEach(walkInner(n))
    }
    n.childNodes.forEach(walk)
  }
  const walkInner = (owner) => (n) => {
    if (n instanceof ge.TextNode) return
    if (n instanceof ge.NativeNode) {
      const ml = n._$modelBindingListeners
      if (ml) for (const k of Object.keys(ml)) out.push({ node: n, name: k, fn: ml[k], kind: 'native', owner })
    }
    if (!(n instanceof ge.Component)) n.childNodes.forEach(walkInner(owner))
  }
  walk(root.getShadowRoot())
  return out
}
// Deliver one event to every listener the generated code registered in the root's shadow tree and
// check that the handler and the l-value path that reach the event listener wrapper are the ones the
// element was last bound with (C11: the path given for an event binding names what the expression reads).
function checkEventDelivery(ctx, root, violation) {
  const walk = (n) => {
    if (n instanceof ge.TextNode) return
    const et = n._$eventTarget
    const rec = ctx.evBindings.get(n)
    if (et && rec) {
      for (const tbl of [et.listeners, et.captureListeners]) {
        if (!tbl) continue
        for (const evName of Object.keys(tbl)) {
          const arr = tbl[evName].funcArr._$arr
          if (!arr) continue
          for (const x of arr.slice()) {
            ctx.delivered = []
            try {
              x.f.call(n, { type: evName, target: n, currentTarget: n, detail: {}, mark: {} })
            } catch (e) {
              continue
            }
            for (const d of ctx.delivered) {
              bump(ctx, 'probe.c11.event_delivery_checked')
              const cands = [...rec.values()].filter((r) => r.ev === evName)
              if (!cands.length) continue
              const ok = cands.some((r) => (typeof r.value === 'function' ? d.f === r.value : true) && enc(d.path === undefined ? null : d.path) === enc(r.path === undefined ? null : r.path))
              if (!ok) {
                const r = cands[0]
                violation('C11', 'event_delivered_with_other_path', `<${n.is}> ${evName}: the element was last bound with handler ${typeof r.value === 'function' ? r.value.__id || 'function' : enc(r.value)} and path ${enc(r.path)}, but an event is delivered to handler ${typeof d.f === 'function' ? d.f.__id || d.f.name || 'function' : enc(d.f)} with path ${enc(d.path)}`)
                return
              }
            }
          }
        }
      }
    }
    n.childNodes.forEach(walk)
  }
  walk(root.getShadowRoot())
  ctx.delivered = []
}
function collectChildren(root) {
  const out = []
  const walk = (n) => {
    if (n instanceof ge.TextNode) return
    if (n instanceof ge.Component) out.push(n)
    n.childNodes.forEach(walk)
  }
  walk(root.getShadowRoot())
  return out
}

// ---------------------------------------------------------------- the world job

// Symbolic op targets ("index k modulo the length") are resolved against the data as it will be
// once the queued changes apply, so that an op never addresses an element a queued change removes
// (which would make the runtime grow the array with holes).
function shadowSet(d, p, v) {
  let cur = d
  for (let i = 0; i < p.length - 1; i += 1) {
    if (!isObj(cur[p[i]])) return false
    cur = cur[p[i]]
  }
  if (!isObj(cur)) return false
  cur[p[p.length - 1]] = v
  return true
}
function bump(ctx, k, n = 1) {
  ctx.counters[k] = (ctx.counters[k] || 0) + n
}

// path of node tags from the root to the first node at which two serialised trees differ
function firstDiffLocus(a, b, path = []) {
  if (typeof a !== 'object' || a === null || typeof b !== 'object' || b === null) return path
  const tag = (o) => o.t || (o.v ? '(' + o.v + ')' : o.x !== undefined ? '#text' : '')
  const here = [...path, tag(a) || tag(b)]
  for (const k of ['t', 'v', 'x']) if (enc(a[k]) !== enc(b[k])) return [...here, '@' + k]
  for (const k of Object.keys({ ...a, ...b })) {
    if (k === 'c' || k === 'shadow' || k === 't' || k === 'v' || k === 'x') continue
    if (enc(a[k]) !== enc(b[k])) return [...here, '@' + k]
  }
  if (a.shadow || b.shadow) {
    if (enc(a.shadow) !== enc(b.shadow)) return firstDiffLocus(a.shadow || {}, b.shadow || {}, [...here, '/shadow'])
  }
  const ca = a.c || []
  const cb = b.c || []
  for (let i = 0; i < Math.max(ca.length, cb.length); i += 1) {
    if (ca[i] === undefined || cb[i] === undefined) return [...here, '@children']
    if (enc(ca[i]) !== enc(cb[i])) return firstDiffLocus(ca[i], cb[i], here)
  }
  return here
}

function classifyMismatch(liveS, freshS) {
  // a short, stable description of where two serialisations first differ
  let i = 0
  while (i < liveS.length && i < freshS.length && liveS[i] === freshS[i]) i += 1
  const a = Math.max(0, i - 80)
  return `first difference at offset ${i}\n live : …${liveS.slice(a, i + 160)}\n fresh: …${freshS.slice(a, i + 160)}`
}

function runWorld(job) {
  const res = { id: job.id, status: 'ok', counters: {}, violation: null }
  let groupList
  try {
    groupList = evalBundle(job.bundle)
  } catch (e) {
    return { id: job.id, status: 'unexecutable', reason: 'bundle does not evaluate: ' + String(e && e.message).slice(0, 200) }
  }
  const ctx = newCtx(false)
  ctx.expectNoPath = true
  ctx.scriptValues = job.scriptValues || null
  CTX = ctx
  errorCount = 0
  lastError = null
  const D0 = dec(job.data)
  let root
  try {
    root = createRoot(job, groupList, ctx, clone(D0), ctx.childState)
  } catch (e) {
    CTX = null
    if (/^[\w$]+ is not iterable/.test(String(e && e.message))) {
      ctx.genThrow = String(e && e.message)
      // the emitted l-value path expression spreads a path that is null (item of a list without a path)
      return { id: job.id, status: 'ok', counters: ctx.counters, steps: 0, logHash: fnv('throw'), violation: { property: 'C11', class: 'lvalue_path_expression_throws', step: 0, detail: 'creation: the generated code throws while building an l-value path: ' + ctx.genThrow } }
    }
    return { id: job.id, status: 'unexecutable', reason: 'creation throws: ' + String(e && e.message).slice(0, 300) }
  }
  if (errorCount) {
    CTX = null
    if (/^[\w$]+ is not iterable/.test(String(lastError && lastError.message))) {
      return { id: job.id, status: 'ok', counters: ctx.counters, steps: 0, logHash: fnv('throw'), violation: { property: 'C11', class: 'lvalue_path_expression_throws', step: 0, detail: 'creation: the generated code throws while building an l-value path: ' + String(lastError.message) } }
    }
    return { id: job.id, status: 'unexecutable', reason: 'creation reports error: ' + String(lastError && lastError.message).slice(0, 300) }
  }
  const dataGroup = root._$dataGroup
  const curD = () => dataGroup.innerData || dataGroup.data
  // snapshot of the data each template instance last rendered with
  const snap = new WeakMap()
  const snapshotAll = () => {
    // root only needs a deep snapshot; children are snapshotted lazily on their first event
  }
  let rootSt = null
  const tmplInst = root._$tmplInst
  rootSt = ctx.byWrapper.get(tmplInst.procGenWrapper)
  if (!rootSt) {
    CTX = null
    return { id: job.id, status: 'unexecutable', reason: 'root wrapper not observed' }
  }
  rootSt.prevData = clone(curD())
  const noteChildSnapshots = () => {
    for (const ch of collectChildren(root)) {
      const ti = ch._$tmplInst
      const st = ti && ti.procGenWrapper && ctx.byWrapper.get(ti.procGenWrapper)
      if (st) st.prevData = clone(ch._$dataGroup.innerData || ch._$dataGroup.data)
    }
  }
  noteChildSnapshots()
  ctx.flushEvents = [] // updates that happened while the tree was being created are part of creation
  let lastS = S(root)
  ctx.log.push('tree ' + lastS)
  let step = 0
  let ended = null // reason the run ended early
  const violation = (prop, cls, detail) => {
    if (!res.violation) res.violation = { property: prop, class: cls, step, detail }
  }

  // creation-time checks --------------------------------------------------------------------
  if (ctx.c11) violation('C11', ctx.c11.class, ctx.c11.detail)
  const B = tmplInst.bindingMapGen
  const advertised = B ? Object.keys(B).sort() : []
  res.advertised = advertised
  bump(ctx, 'probe.binding_map_fields_advertised', advertised.length)
  if (job.unreachableFields && B && !tmplInst.procGenWrapper.bindingMapDisabled) {
    for (const f of job.unreachableFields) {
      if (Object.prototype.hasOwnProperty.call(B, f)) {
        violation('C07', 'advertised_but_unreachable', `field ${f} is used in a position the binding map cannot reach, yet B advertises updaters for it`)
      }
    }
  }
  // creation must equal creation (sanity of the serialiser / reference model)
  {
    const f0 = freshTree(job, groupList, curD(), ctx.childState)
    if (f0.s !== S(root) && !deepEq(curD(), dec(job.data))) {
      // a child wrote to the host's data while the host was being created (a model-bound property
      // normalised by the child): that is an update of the host like any other
      bump(ctx, 'probe.host_data_changed_during_creation')
      violation('C06', 'update_during_creation_lost', `creation: a child changed the host's data while the host's template was being created; the live tree differs from a fresh creation with the data the host now holds\n${classifyMismatch(S(root), f0.s)}`)
    } else if (f0.s !== S(root)) {
      CTX = null
      return { id: job.id, status: 'unexecutable', reason: 'two creations with the same data differ (serialiser or generator not deterministic): ' + classifyMismatch(S(root), f0.s) }
    }
  }

  // flush handling ---------------------------------------------------------------------------
  const afterFlush = (label) => {
    // called after anything that may have applied updates
    const events = ctx.flushEvents
    ctx.flushEvents = []
    if (errorCount && /^[\w$]+ is not iterable/.test(String(lastError && lastError.message))) {
      violation('C11', 'lvalue_path_expression_throws', `${label}: the generated code throws while building an l-value path: ${String(lastError.message)}`)
      ended = 'runtime_error'
      return
    }
    if (errorCount) {
      ended = 'runtime_error'
      bump(ctx, 'discard.runtime_error_in_update')
      res.errorMessage = String(lastError && lastError.message).slice(0, 300)
      return
    }
    if (!events.length) {
      bump(ctx, 'step.flush_without_template_update')
    }
    let unmet = false
    let rootKind = null
    const kinds = new Set()
    for (const ev of events) {
      const st = ev.st
      const before = st.prevData
      const after = ev.data
      kinds.add(ev.kind + ':' + st.comp)
      if (st === rootSt) rootKind = rootKind === null ? ev.kind : rootKind === ev.kind ? ev.kind : 'mixed'
      if (before !== undefined) {
        let req = ev.batch ? requiredMarks(before, ev.batch.changes, after, st === rootSt ? job.indexedLists : null) : plainDiff(before, after)
        if (req === null) {
          bump(ctx, 'probe.batch_not_modelled')
          ctx.log.push(`batch-not-modelled ${st.tag} ${enc(ev.batch.changes)} before=${enc(before)} after=${enc(after)}`)
          // fall back to the plain positional diff (stricter)
          req = plainDiff(before, after)
        }
        if (ev.kind === 'tree') {
          bump(ctx, 'step.tree_path_updates')
          const unc = req.filter((p) => !covered(ev.U, p)).concat((req.strict || []).filter((p) => !coveredStrict(ev.U, p)))
          if (unc.length) {
            unmet = true
            ctx.log.push(`precondition-unmet ${st.tag} ${enc(unc.slice(0, 4))}`)
          }
          if (ev.U === true) bump(ctx, 'fault.root_true')
          if (ev.batch && ev.batch.changes.some((c) => c[3] !== undefined)) {
            bump(ctx, 'probe.tree_update_with_splice')
            if (ev.batch.changes.length > 1) bump(ctx, 'probe.splice_rebased_in_batch')
          }
        } else {
          bump(ctx, 'step.fast_path_updates')
          const unc = req.filter((p) => p[0] !== ev.field)
          if (unc.length) {
            unmet = true
            ctx.log.push(`precondition-unmet-fast ${st.tag} ${enc(unc.slice(0, 4))}`)
          }
        }
        if (req.length === 0) bump(ctx, 'fault.noop_mark')
      }
      st.prevData = clone(after)
    }
    noteChildSnapshots()
    rootSt.prevData = clone(curD())
    const liveS = S(root)
    if (ctx.treeShapes.size < 12) ctx.treeShapes.add(shapeTree(root.getShadowRoot()))
    if (liveS !== lastS) bump(ctx, 'step.flushes_changed_tree')
    lastS = liveS
    ctx.log.push(`tree(${label}) ${liveS}`)
    if (unmet) {
      bump(ctx, 'discard.precondition_unmet')
      ended = 'precondition_unmet'
      return
    }
    bump(ctx, 'step.oracle_evaluations')
    if (ctx.c11) violation('C11', ctx.c11.class, ctx.c11.detail)
    let fr
    try {
      fr = freshTree(job, groupList, curD(), ctx.childState)
    } catch (e) {
      ended = 'fresh_creation_throws'
      bump(ctx, 'discard.fresh_creation_throws')
      return
    }
    if (liveS !== fr.s) {
      // attribution: by the update kinds that ran in this flush
      const hasFast = [...kinds].some((k) => k.startsWith('fast'))
      const hasTree = [...kinds].some((k) => k.startsWith('tree'))
      // (judged on the two serialisations that were compared: each was made under its own context)
      const pl = JSON.parse(liveS)
      const pf = JSON.parse(fr.s)
      res.locus = enc(pl.shadow) === enc(pf.shadow) && enc(pl.composed) === enc(pf.composed) ? ['backend', '@children'] : locusOf(root, fr.root, pl, pf)
      // a model listener that holds another path than a fresh creation registers is C11's matter
      // (its history-dependent clause) unless only fast-path updaters ran
      const onlyModelPath = res.locus.length && res.locus[res.locus.length - 1] === '@model'
      const prop = hasFast && !hasTree ? 'C07' : onlyModelPath ? 'C11' : 'C06'
      const backendOnly = res.locus[0] === 'backend'
      violation(prop, backendOnly ? 'backend_child_order_differs' : hasFast && !hasTree ? 'fast_path_stale' : onlyModelPath ? 'live_listener_path_stale' : hasFast ? 'mixed_path_stale' : 'tree_path_stale', `${label}: first difference at ${res.locus.join(' > ')}; live tree differs from a fresh creation with the same data (update kinds: ${[...kinds].join(',')})\n${classifyMismatch(liveS, fr.s)}\n data: ${enc(curD()).slice(0, 600)}`)
      ended = 'mismatch'
      return
    }
    if (events.length) bump(ctx, 'step.flushes_compared_equal')
    // children: live == fresh can hide a defect that only the update path of a child template has,
    // because the fresh child was updated the same way; compare with a pure creation of the child
    if (events.some((e) => e.st !== rootSt)) {
      for (const ch of collectChildren(root)) {
        let alone
        try {
          alone = standaloneChildShadow(job, groupList, ch.is, ch.data, ctx.childState)
        } catch (e) {
          bump(ctx, 'discard.standalone_child_throws')
          continue
        }
        if (alone === null) continue
        bump(ctx, 'step.child_pure_creation_compared')
        const liveChild = enc(ser(ch.getShadowRoot()))
        if (liveChild !== alone) {
          const hasFast = [...kinds].some((k) => k.startsWith('fast'))
          const hasTree = [...kinds].some((k) => k.startsWith('tree'))
          const prop = hasFast && !hasTree ? 'C07' : 'C06'
          res.locus = ['(shadow)', ch.is, '/shadow']
          violation(prop, hasFast && !hasTree ? 'fast_path_stale' : hasFast ? 'mixed_path_stale' : 'tree_path_stale', `${label}: the shadow tree of child <${ch.is}> differs from a pure creation of that component with the same property values (update kinds: ${[...kinds].join(',')})\n${classifyMismatch(liveChild, alone)}\n child data: ${enc(ch.data).slice(0, 400)}`)
          ended = 'mismatch'
          return
        }
      }
    }
    // C11 over the history: every live model listener still addresses what its element displays
    checkLiveModelPaths()
    checkEventDelivery(ctx, root, violation)
  }

  const checkLiveModelPaths = () => {
    const ls = collectModelListeners(root)
    for (const l of ls) {
      const rec = ctx.modelPaths.get(l.node)
      const r = rec && rec[l.name === undefined ? '' : l.name]
      const key = l.kind === 'component' ? null : l.name
      let entry = r
      if (!entry && rec) {
        // component listeners are registered under the camelCase name
        for (const k of Object.keys(rec)) {
          if (k.replace(/-(.|$)/g, (s) => (s[1] ? s[1].toUpperCase() : '')) === l.name) entry = rec[k]
        }
      }
      if (!entry || !entry.path) continue
      bump(ctx, 'probe.c11.live_listener_checked')
      const D = entry.st === rootSt ? curD() : entry.st.curData
      if (!addressable(D, entry.path)) continue
      const got = getPath(D, entry.path)
      let shown
      if (l.kind === 'native') {
        const at = l.node.attributes.find((a) => a.name === l.name)
        shown = at ? at.value : undefined
      } else {
        shown = l.node.data[l.name]
      }
      // a component property normalises its input (undefined becomes the declared default, null)
      const same = Object.is(got, shown) || (isObj(got) && isObj(shown) && deepEq(got, shown)) || (l.kind === 'component' && got === undefined && shown === null)
      if (!same) {
        violation('C11', 'live_listener_path_stale', `after step ${step}: the model listener of <${l.node.is}> ${l.name} holds path ${enc(entry.path)} which addresses ${enc(got)}, but the element displays ${enc(shown)}`)
      }
      void key
    }
  }
  checkLiveModelPaths()
  checkEventDelivery(ctx, root, violation)

  // schedule ----------------------------------------------------------------------------------
  const ops = job.schedule || []
  let shadow = clone(root.data)
  let shadowDirty = false
  for (const op of ops) {
    if (ended || res.violation) break
    step += 1
    const kind = op[0]
    if (!shadowDirty) shadow = clone(root.data)
    try {
      if (kind === 'set') {
        const p = resolvePath(shadow, op[1])
        if (p === null) {
          ctx.log.push('skip set')
          bump(ctx, 'step.op_skipped')
          continue
        }
        const v = dec(op[2])
        if (!shadowSet(shadow, p, clone(v))) {
          bump(ctx, 'step.op_skipped')
          continue
        }
        shadowDirty = true
        root.replaceDataOnPath(p, clone(v))
        ctx.log.push(`set ${enc(p)} ${enc(v)}`)
        bump(ctx, 'step.op.set')
      } else if (kind === 'clone') {
        const p = resolvePath(shadow, op[1])
        if (p === null) continue
        const cur = getPath(shadow, p)
        shadowDirty = true
        root.replaceDataOnPath(p, clone(cur))
        ctx.log.push(`clone ${enc(p)}`)
        bump(ctx, 'step.op.clone')
        bump(ctx, isObj(cur) ? 'fault.coarse_mark' : 'fault.noop_mark_requested')
      } else if (kind === 'splice' || kind === 'splice_safe') {
        const p = resolvePath(shadow, op[1])
        if (p === null) continue
        const arr = getPath(shadow, p)
        if (!Array.isArray(arr)) {
          bump(ctx, 'step.op_skipped')
          continue
        }
        const at = op[2] % (arr.length + 1)
        const del = Math.min(op[3], arr.length - at)
        const ins = dec(op[4])
        const arrBefore = arr.slice()
        arr.splice(at, del, ...clone(ins))
        shadowDirty = true
        if (ins.length > del) bump(ctx, 'fault.list_grow')
        else if (ins.length < del) bump(ctx, 'fault.list_shrink')
        if (kind === 'splice_safe' && ins.length < del) {
          // a shrinking splice cannot re-mark positions that cease to exist: replace the list
          const after = clone(arr)
          root.replaceDataOnPath(p, after)
          ctx.log.push(`splice-as-replace ${enc(p)} ${at} ${del} ${enc(ins)}`)
          bump(ctx, 'step.op.splice_as_replace')
          continue
        }
        root.spliceArrayDataOnPath(p, at, del, clone(ins))
        ctx.log.push(`splice ${enc(p)} ${at} ${del} ${enc(ins)}`)
        bump(ctx, 'step.op.splice')
        if (kind === 'splice_safe' && ins.length !== del) {
          // legal over-approximation: re-set every shifted index in the same batch
          const after = arr
          for (let i = at + ins.length; i < after.length; i += 1) root.replaceDataOnPath([...p, i], clone(after[i]))
          void arrBefore
          bump(ctx, 'fault.splice_then_item_set')
        }
      } else if (kind === 'reorder') {
        const p = resolvePath(shadow, op[1])
        if (p === null) continue
        const arr = getPath(shadow, p)
        if (!Array.isArray(arr) || arr.length < 2) {
          bump(ctx, 'step.op_skipped')
          continue
        }
        let next = clone(arr)
        if (op[2] === 'reverse') next.reverse()
        else if (op[2] === 'rotate') next.push(next.shift())
        else {
          const t = next[0]
          next[0] = next[1]
          next[1] = t
        }
        shadowSet(shadow, p, clone(next))
        shadowDirty = true
        root.replaceDataOnPath(p, next)
        ctx.log.push(`reorder ${enc(p)} ${op[2]}`)
        bump(ctx, 'fault.list_reorder')
      } else if (kind === 'flush') {
        const n = dataGroup._$pendingChanges ? dataGroup._$pendingChanges.length : 0
        if (n > 1) bump(ctx, 'fault.batch')
        else if (n === 1) bump(ctx, dataGroup._$pendingChanges[0][0].length === 1 ? 'fault.single_toplevel' : 'fault.single_nested')
        ctx.log.push(`flush pending=${n}`)
        root.applyDataUpdates()
        shadowDirty = false
        bump(ctx, 'step.flush')
        afterFlush('flush@' + step)
      } else if (kind === 'model') {
        const ls = collectModelListeners(root)
        if (!ls.length) {
          bump(ctx, 'step.op_skipped')
          continue
        }
        if (dataGroup._$pendingChanges && dataGroup._$pendingChanges.length) {
          // a view that lags behind queued changes is the user's race, not a wrong path:
          // bring it up to date before writing through it
          root.applyDataUpdates()
          shadowDirty = false
          afterFlush('premodel@' + step)
          if (ended || res.violation) break
        }
        const ls2 = collectModelListeners(root)
        if (!ls2.length) continue
        const l = ls2[op[1] % ls2.length]
        const v = dec(op[2])
        ctx.log.push(`model ${l.kind} <${l.node.is}> ${l.name} ${enc(v)}`)
        const rec = ctx.modelPaths.get(l.node)
        let entry = rec && rec[l.name]
        if (!entry && rec) for (const k of Object.keys(rec)) if (k.replace(/-(.|$)/g, (s) => (s[1] ? s[1].toUpperCase() : '')) === l.name) entry = rec[k]
        if (entry && entry.path && entry.st === rootSt) {
          // a write beyond the end of a list would make the runtime grow it with holes; sparse
          // arrays are outside the workload (deep copies and loops treat holes inconsistently)
          let cur = curD()
          let holes = false
          for (const seg of entry.path) {
            if (Array.isArray(cur) && typeof seg === 'number' && seg > cur.length) holes = true
            cur = cur === null || cur === undefined ? undefined : cur[seg]
          }
          if (holes) {
            bump(ctx, 'step.op_skipped')
            continue
          }
        }
        if (l.kind === 'native' && l.owner) {
          // an input inside a child writes to the child's data: that is host-reproducible state only
          // when the property it lands in is itself model-bound to an assignable host expression
          const orec = ctx.modelPaths.get(l.owner)
          const prop = entry && entry.path ? entry.path[0] : undefined
          const bound = orec && prop !== undefined && orec[prop] && orec[prop].path
          if (!bound) {
            bump(ctx, 'step.op_skipped')
            continue
          }
        }
        if (l.kind === 'native') {
          l.fn.call(l.node, clone(v))
          bump(ctx, 'fault.model_write')
          if (l.owner && entry && entry.path) {
            // get-put inside the child, and for what the child's bound property now holds in the host
            bump(ctx, 'probe.c11.child_inner_put_checked')
            const got = getPath(l.owner.data, entry.path)
            if (!(Object.is(got, v) || (isObj(got) && deepEq(got, v)))) {
              violation('C11', 'model_put_not_at_path', `writing ${enc(v)} through the model listener of <${l.node.is}> ${l.name} inside <${l.owner.is}> (path ${enc(entry.path)} in the child's data) left ${enc(got)} at that path; child data: ${enc(l.owner.data).slice(0, 300)}; host data: ${enc(curD()).slice(0, 300)}`)
            }
          }
        } else if (!entry || !entry.path) {
          // the component's listener is a no-op (no assignable path now): writing would only
          // create child-local state that no host data reproduces
          bump(ctx, 'step.op_skipped')
          continue
        } else {
          // a component writes its own property; the runtime then calls the listener
          const beforeVal = l.node.data[l.name]
          if (beforeVal === v || (beforeVal === null && v === undefined)) {
            // not a change for the runtime (!==): the child would keep a private -0/0 variation
            // that no host data reproduces
            bump(ctx, 'step.op_skipped')
            continue
          }
          l.node.setData({ [l.name]: clone(v) })
          bump(ctx, 'fault.child_model_write')
          // a write that does not change the property is not propagated (nothing to check)
          // (the runtime compares with !==, so -0 -> 0 is no change and NaN -> NaN is one)
          if (beforeVal === v || (beforeVal === null && v === undefined) || !l.node.parentNode) entry = null
        }
        // put: the location the path named now holds the value the listener was given
        // (for a component: its property value after the component's own normalisation)
        if (entry && entry.path && entry.st === rootSt) {
          const got = getPath(curD(), entry.path)
          // (a child with a normalising observer holds the normalised value)
          const clamps = l.kind !== 'native' && (job.components || []).some((c) => c.is === l.node.is && c.clamp)
          const expected = l.kind === 'native' ? v : clamps ? l.node.data[l.name] : v === undefined ? null : v
          // a clamping child bound to the same location normalises what another view wrote there
          let normalisedBy = null
          if ((job.components || []).some((c) => c.clamp)) {
            for (const o of collectModelListeners(root)) {
              if (o.kind === 'native' || o.node === l.node) continue
              if (!(job.components || []).some((c) => c.is === o.node.is && c.clamp)) continue
              const orec = ctx.modelPaths.get(o.node)
              const oe = orec && orec[o.name]
              if (oe && oe.path && oe.st === rootSt && enc(oe.path) === enc(entry.path) && Object.is(o.node.data[o.name], got)) normalisedBy = o.node
            }
          }
          if (!normalisedBy && !(Object.is(got, expected) || (isObj(got) && deepEq(got, expected)))) {
            violation('C11', 'model_put_not_at_path', `writing ${enc(v)} through the model listener of <${l.node.is}> ${l.name} (path ${enc(entry.path)}) left ${enc(got)} at that path`)
          }
          bump(ctx, 'probe.c11.put_checked')
        }
        afterFlush('model@' + step)
      } else if (kind === 'child_state' || kind === 'child_state_splice') {
        // a child component changes its own state; every instance of that component does the same,
        // so that the state is a function of the history and a reference creation can start from it
        const is = op[1]
        const def = (job.components || []).find((c) => c.is === is)
        if (!def) {
          bump(ctx, 'step.op_skipped')
          continue
        }
        if (dataGroup._$pendingChanges && dataGroup._$pendingChanges.length) {
          root.applyDataUpdates()
          shadowDirty = false
          afterFlush('prechild@' + step)
          if (ended || res.violation) break
        }
        // (the instances as they are once the host's queued changes are applied)
        const insts = collectChildren(root).filter((c) => c.is === is)
        if (!insts.length) {
          bump(ctx, 'step.op_skipped')
          continue
        }
        if (ctx.childState[is] === undefined) ctx.childState[is] = clone(dec(def.data || {}))
        const state = ctx.childState[is]
        const p = resolvePath(state, op[2])
        if (p === null) {
          bump(ctx, 'step.op_skipped')
          continue
        }
        if (kind === 'child_state') {
          const v = dec(op[3])
          if (!shadowSet(state, p, clone(v))) {
            bump(ctx, 'step.op_skipped')
            continue
          }
          ctx.log.push(`child_state <${is}> x${insts.length} ${enc(p)} ${enc(v)}`)
          for (const c of insts) {
            c.replaceDataOnPath(p, clone(v))
            c.applyDataUpdates()
          }
          bump(ctx, 'fault.child_state_write')
        } else {
          const arr = getPath(state, p)
          if (!Array.isArray(arr)) {
            bump(ctx, 'step.op_skipped')
            continue
          }
          const at = op[3] % (arr.length + 1)
          const del = Math.min(op[4], arr.length - at)
          const ins = dec(op[5])
          arr.splice(at, del, ...clone(ins))
          ctx.log.push(`child_state_splice <${is}> x${insts.length} ${enc(p)} ${at} ${del} ${enc(ins)}`)
          for (const c of insts) {
            c.spliceArrayDataOnPath(p, at, del, clone(ins))
            c.applyDataUpdates()
          }
          bump(ctx, 'fault.child_state_splice')
        }
        afterFlush(kind + '@' + step)
      } else if (kind === 'child_set') {
        const cs = collectChildren(root).filter((c) => Object.prototype.hasOwnProperty.call(c.data, op[2]))
        if (!cs.length) {
          bump(ctx, 'step.op_skipped')
          continue
        }
        const c = cs[op[1] % cs.length]
        const v = dec(op[3])
        ctx.log.push(`child_set <${c.is}> ${op[2]} ${enc(v)}`)
        c.setData({ [op[2]]: clone(v) })
        bump(ctx, 'step.op.child_set')
        afterFlush('child_set@' + step)
      } else if (kind === 'raw') {
        // replace the whole data and hand the generated code an explicit update-path tree
        if (dataGroup._$pendingChanges && dataGroup._$pendingChanges.length) {
          root.applyDataUpdates()
          afterFlush('preraw@' + step)
          if (ended || res.violation) break
        }
        shadowDirty = false
        const next = clone(root.data)
        let patchedAll = true
        for (const [pth, v] of op[1]) {
          const p = resolvePath(next, pth)
          if (p === null || p.length === 0) {
            patchedAll = false
            continue
          }
          let cur = next
          let ok = true
          for (let i = 0; i < p.length - 1; i += 1) {
            // only existing containers are patched into (the explicit tree below names exactly these paths)
            if (!isObj(cur[p[i]])) {
              ok = false
              break
            }
            cur = cur[p[i]]
          }
          // (an array is patched at an existing position only: no holes, no growth)
          if (ok && Array.isArray(cur) && !(Number.isInteger(p[p.length - 1]) && p[p.length - 1] < cur.length)) ok = false
          if (ok) cur[p[p.length - 1]] = dec(v)
          else patchedAll = false
        }
        void patchedAll
        const U = op[2] === true ? true : dec(op[2])
        dataGroup.replaceWholeData(next)
        ctx.log.push(`raw U=${enc(U)}`)
        tmplInst.procGenWrapper.update(curD(), U)
        bump(ctx, 'step.op.raw')
        afterFlush('raw@' + step)
      } else if (kind === 'timers') {
        const n = drainTimers()
        if (n) bump(ctx, 'fault.timer_drain', n)
        ctx.log.push(`timers ${n}`)
      }
    } catch (e) {
      if (/^[\w$]+ is not iterable/.test(String(e && e.message))) violation('C11', 'lvalue_path_expression_throws', `step ${step}: the generated code throws while building an l-value path: ${String(e.message)}`)
      ended = 'op_throws'
      bump(ctx, 'discard.op_throws')
      bump(ctx, 'probe.op_throws: ' + String(e && e.message).replace(/[0-9]+/g, 'N').slice(0, 70))
      // an update that throws where a creation with the same data works left the tree behind
      if (!res.violation && kind !== 'model' && kind !== 'child_set') {
        let freshOk = false
        try {
          freshTree(job, groupList, curD(), ctx.childState)
          freshOk = true
        } catch (e2) {
          freshOk = false
        }
        if (freshOk) violation('C06', 'update_throws', `step ${step} (${kind}): the update throws (${String(e && e.message).slice(0, 160)}) while a fresh creation with the same data succeeds\n data: ${enc(curD()).slice(0, 500)}`)
      }
      res.errorMessage = String(e && e.stack ? e.stack : e).slice(0, 400)
      break
    }
  }
  CTX = null
  res.ended = ended
  res.steps = step
  res.counters = ctx.counters
  res.logHash = fnv(ctx.log.join('\n'))
  if (job.wantLog) res.log = ctx.log
  res.uShapes = [...ctx.uShapes]
  res.treeShapes = [...ctx.treeShapes]
  res.warnings = warnCount
  return res
}

// ---------------------------------------------------------------- C14: lock-step of several bundles
function runLockstep(job) {
  LISTENERS_IN_ORDER = true
  try {
    return runLockstepInner(job)
  } finally {
    LISTENERS_IN_ORDER = false
  }
}
function runLockstepInner(job) {
  const res = { id: job.id, status: 'ok', counters: {}, violation: null }
  const lists = []
  for (const b of job.bundles) {
    try {
      lists.push(evalBundle(b))
    } catch (e) {
      return { id: job.id, status: 'unexecutable', reason: 'bundle does not evaluate: ' + String(e && e.message).slice(0, 200) }
    }
  }
  const ctxs = lists.map(() => newCtx(false))
  const roots = []
  errorCount = 0
  for (let i = 0; i < lists.length; i += 1) {
    CTX = ctxs[i]
    try {
      roots.push(createRoot(job, lists[i], ctxs[i], clone(dec(job.data))))
    } catch (e) {
      CTX = null
      return { id: job.id, status: 'unexecutable', reason: `creation of instance ${i} throws: ` + String(e && e.message).slice(0, 300) }
    }
  }
  CTX = null
  if (errorCount) return { id: job.id, status: 'unexecutable', reason: 'creation reports error: ' + String(lastError && lastError.message).slice(0, 300) }
  const log = []
  let step = 0
  const counters = Object.create(null)
  const b = (k, n = 1) => {
    counters[k] = (counters[k] || 0) + n
  }
  // adjacent text nodes render like one (they only arise from ill-formed sources)
  const mergeText = (o) => {
    if (o === null || typeof o !== 'object') return o
    if (Array.isArray(o)) {
      const out = []
      for (const x of o) {
        const last = out[out.length - 1]
        if (typeof x === 'string' && typeof last === 'string' && out.length > 1) out[out.length - 1] = last + x
        else if (x && typeof x === 'object' && 'x' in x && last && typeof last === 'object' && 'x' in last) out[out.length - 1] = { x: String(last.x) + String(x.x) }
        else out.push(mergeText(x))
      }
      // an empty text node renders nothing
      return out.filter((x, i) => !(x && typeof x === 'object' && !Array.isArray(x) && x.x === '') && !(x === '' && i > 0))
    }
    const r = {}
    for (const k of Object.keys(o)) r[k] = mergeText(o[k])
    return r
  }
  const SL = (root) => enc(mergeText({ shadow: ser(root.getShadowRoot()), composed: serComposed(root) }))
  const alive = roots.map(() => true)
  res.violations = []
  const compare = (label) => {
    const ss = roots.map((r, i) => (alive[i] ? SL(r) : null))
    log.push(label + ' ' + ss[0])
    b('step.oracle_evaluations')
    for (let i = 1; i < ss.length; i += 1) {
      if (!alive[i]) continue
      if (ss[i] !== ss[0]) {
        if (step > 0) {
          // is the original itself sound here? If its live tree is not what a fresh creation with
          // its data renders, the difference is an update defect (C06/C07 domain), not a printer one
          let fresh0 = null
          try {
            const ctx = newCtx(true)
            const saved = CTX
            CTX = ctx
            try {
              fresh0 = SL(createRoot(job, lists[0], ctx, clone(roots[0].data)))
            } finally {
              CTX = saved
            }
          } catch (e) {
            fresh0 = null
          }
          if (fresh0 !== ss[0]) {
            b('discard.original_updates_unsoundly')
            res.originalUnsound = true
            for (let k = 1; k < alive.length; k += 1) alive[k] = false
            return false
          }
        }
        alive[i] = false
        res.violations.push({ instance: i, property: 'C14', class: step === 0 ? 'reprinted_renders_differently' : 'reprinted_updates_differently', step, detail: `${label}: instance ${i} (${job.bundleLabels ? job.bundleLabels[i] : i}) differs from the original\n${classifyMismatch(ss[i], ss[0]).replace('live ', 'this ').replace('fresh', 'orig ')}` })
      }
    }
    return alive.slice(1).some((x) => x)
  }
  let ended = null
  if (compare('create')) {
    for (const op of job.schedule || []) {
      if (ended) break
      step += 1
      const kind = op[0]
      try {
        let applied = false
        for (let i = 0; i < roots.length; i += 1) {
          if (!alive[i]) continue
          const root = roots[i]
          CTX = ctxs[i]
          if (kind === 'set') {
            const p = resolvePath(root.data, op[1])
            if (p === null) continue
            root.replaceDataOnPath(p, clone(dec(op[2])))
            applied = true
          } else if (kind === 'clone') {
            const p = resolvePath(root.data, op[1])
            if (p === null) continue
            root.replaceDataOnPath(p, clone(getPath(root.data, p)))
            applied = true
          } else if (kind === 'splice' || kind === 'splice_safe') {
            const p = resolvePath(root.data, op[1])
            if (p === null) continue
            const arr = getPath(root.data, p)
            if (!Array.isArray(arr)) continue
            const at = op[2] % (arr.length + 1)
            const del = Math.min(op[3], arr.length - at)
            root.spliceArrayDataOnPath(p, at, del, clone(dec(op[4])))
            applied = true
          } else if (kind === 'reorder') {
            const p = resolvePath(root.data, op[1])
            if (p === null) continue
            const arr = getPath(root.data, p)
            if (!Array.isArray(arr) || arr.length < 2) continue
            const next = clone(arr)
            if (op[2] === 'reverse') next.reverse()
            else if (op[2] === 'rotate') next.push(next.shift())
            else {
              const t = next[0]
              next[0] = next[1]
              next[1] = t
            }
            root.replaceDataOnPath(p, next)
            applied = true
          } else if (kind === 'flush') {
            root.applyDataUpdates()
            applied = true
          } else if (kind === 'model') {
            const ls = collectModelListeners(root)
            if (!ls.length) continue
            const l = ls[op[1] % ls.length]
            if (l.kind === 'native') l.fn.call(l.node, clone(dec(op[2])))
            else l.node.setData({ [l.name]: clone(dec(op[2])) })
            applied = true
          } else if (kind === 'child_set') {
            const cs = collectChildren(root).filter((c) => Object.prototype.hasOwnProperty.call(c.data, op[2]))
            if (!cs.length) continue
            cs[op[1] % cs.length].setData({ [op[2]]: clone(dec(op[3])) })
            applied = true
          }
        }
        CTX = null
        if (errorCount) {
          ended = 'runtime_error'
          b('discard.runtime_error_in_update')
          break
        }
        log.push('op ' + JSON.stringify(op))
        if (applied && (kind === 'flush' || kind === 'model' || kind === 'child_set')) {
          b('step.flush')
          if (!compare(kind + '@' + step)) break
        }
      } catch (e) {
        CTX = null
        ended = 'op_throws'
        b('discard.op_throws')
        res.errorMessage = String(e && e.stack ? e.stack : e).slice(0, 400)
      }
    }
  }
  CTX = null
  res.ended = ended
  res.steps = step
  res.counters = counters
  res.logHash = fnv(log.join('\n'))
  if (job.wantLog) res.log = log
  return res
}

// ---------------------------------------------------------------- C13: render a linked group
function runLink(job) {
  let groupList
  try {
    groupList = evalBundle(job.bundle)
  } catch (e) {
    return { id: job.id, status: 'unexecutable', reason: 'bundle does not evaluate: ' + String(e && e.message).slice(0, 200) }
  }
  const out = []
  for (const rootPath of job.roots) {
    const j = { components: [{ is: 'root', path: rootPath, root: true }], config: {} }
    errorCount = 0
    try {
      const root = createRoot(j, groupList, null, clone(dec(job.data || {})))
      const texts = []
      const walk = (n) => {
        if (n instanceof ge.TextNode) texts.push(n.textContent)
        else n.childNodes.forEach(walk)
      }
      walk(root.getShadowRoot())
      out.push({ root: rootPath, texts, errors: errorCount, error: errorCount ? String(lastError && lastError.message).slice(0, 200) : undefined })
    } catch (e) {
      out.push({ root: rootPath, throws: String(e && e.message).slice(0, 300) })
    }
  }
  return { id: job.id, status: 'ok', renders: out }
}

// ---------------------------------------------------------------- main loop
function handle(job) {
  // nothing of one job may reach the next one: pending timers of the previous world are dropped
  // and the simulated clock starts over
  SIM.queue = []
  SIM.now = 1_000_000
  SIM.seq = 0
  try {
    if (job.kind === 'world') return runWorld(job)
    if (job.kind === 'lockstep') return runLockstep(job)
    if (job.kind === 'link') return runLink(job)
    if (job.kind === 'ping') return { id: job.id, status: 'ok', node: process.versions.node }
    return { id: job.id, status: 'error', reason: 'unknown job kind ' + job.kind }
  } catch (e) {
    CTX = null
    return { id: job.id, status: 'error', reason: String(e && e.stack ? e.stack : e).slice(0, 600) }
  }
}

const rl = createInterface({ input: process.stdin, crlfDelay: Infinity })
rl.on('line', (line) => {
  if (!line.trim()) return
  let job
  try {
    job = JSON.parse(line)
  } catch (e) {
    process.stdout.write(JSON.stringify({ id: -1, status: 'error', reason: 'bad json' }) + '\n')
    return
  }
  const r = handle(job)
  process.stdout.write(JSON.stringify(r) + '\n')
})
rl.on('close', () => process.exit(0))
