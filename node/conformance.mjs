// Conformance of the loader + executor environment: the repository's own jest suites for the
// template engine are run (unmodified source, types stripped) against glass-easel/src loaded through
// /verif/node/hooks.mjs, with the jest API, the DOM-based helpers of tests/base/env.ts and the
// template compiler (spawned ge-dst binary) replaced by small shims. A deviation from the allowlist
// is a harness error (exit 2): either the loader no longer reproduces tsc's output or the shims rot.
import { readFileSync } from 'node:fs'
import { execFileSync } from 'node:child_process'
import { stripTypeScriptTypes } from 'node:module'
import path from 'node:path'
import { fileURLToPath } from 'node:url'

const REPO = process.env.GE_REPO_DIR || '/repo'
const GE_DST = process.env.GE_DST_BIN || path.join(path.dirname(fileURLToPath(import.meta.url)), '..', 'dst', 'target', 'release', 'ge-dst')
const SRC = REPO + '/glass-easel/src'
const TESTS = REPO + '/glass-easel/tests'

const timers = []
globalThis.setTimeout = (fn) => {
  timers.push(fn)
  return timers.length
}
globalThis.clearTimeout = () => {}

const glassEasel = await import(SRC + '/index.ts')
glassEasel.globalOptions.throwGlobalError = true
const warningThrow = (msg) => {
  throw new Error(msg)
}
glassEasel.addGlobalWarningListener(warningThrow)

// ---------------------------------------------------------------- compiler shim
const compileCache = new Map()
function compile(files, dev) {
  const key = JSON.stringify([files, dev])
  if (compileCache.has(key)) return compileCache.get(key)
  const tmpls = []
  const scripts = []
  for (const [p, s] of files) {
    if (p.endsWith('.wxs')) scripts.push([p.slice(0, -4), s])
    else tmpls.push([p, s])
  }
  const out = execFileSync(GE_DST, ['compile'].concat(dev ? ['--dev'] : []), { input: JSON.stringify({ files: tmpls, scripts }), stdio: ['pipe', 'pipe', 'ignore'], maxBuffer: 1 << 26 }).toString()
  compileCache.set(key, out)
  return out
}
const tmpl = (src, options, filterFuncs) => {
  let genObjectSrc = `return ${compile([['', src]], true)}`
  if (filterFuncs !== undefined) {
    const C = filterFuncs.C || 'undefined'
    genObjectSrc = genObjectSrc.replace('var Q={', `var Q={C:${C.toString()},`)
  }
  const list = new Function(genObjectSrc)()
  return { groupList: list, content: list[''], ...options }
}
const multiTmpl = (src, options) => {
  const list = new Function(`return ${compile(Object.entries(src), false)}`)()
  return { groupList: list, content: list[''], ...options }
}

// ---------------------------------------------------------------- DOM-less innerHTML
const esc = (s) => String(s).replace(/&/g, '&amp;').replace(/</g, '&lt;').replace(/>/g, '&gt;')
const escAttr = (s) => String(s).replace(/&/g, '&amp;').replace(/"/g, '&quot;')
function html(n) {
  if (n instanceof glassEasel.TextNode) return esc(n.textContent)
  let inner = ''
  n.forEachComposedChild((c) => {
    inner += html(c)
  })
  if (n instanceof glassEasel.VirtualNode || n._$virtual) return inner
  let attrs = ''
  const host = n.ownerShadowRoot && n.ownerShadowRoot.getHostNode()
  const opts = host ? host.getComponentOptions() : null
  if (n.id && opts && opts.writeIdToDOM) {
    const prefix = host._$idPrefix
    attrs += ` id="${escAttr(prefix ? prefix + '--' + n.id : n.id)}"`
  }
  const fmt = (name, v) => {
    if (v === false) return ''
    if (v === true || v === null || v === undefined) return ` ${name}=""`
    return ` ${name}="${escAttr(v)}"`
  }
  const pre = []
  if (n instanceof glassEasel.NativeNode) for (const a of n.attributes) pre.push(fmt(a.name, a.value))
  const cls = n.class
  const sty = n.style
  const tag = n instanceof glassEasel.Component ? n.tagName || n.is : n.is
  const VOID = ['input', 'br', 'img', 'hr', 'meta', 'link']
  const open = `<${tag}${attrs}${sty ? ` style="${escAttr(sty)}"` : ''}${cls ? ` class="${escAttr(cls)}"` : ''}${pre.join('')}>`
  return VOID.includes(tag) ? open : `${open}${inner}</${tag}>`
}
const domHtml = (elem) => {
  let s = ''
  elem.forEachComposedChild((c) => {
    s += html(c)
  })
  return s
}

// ---------------------------------------------------------------- jest shims
class Unsupported extends Error {}
const isObj = (v) => v !== null && typeof v === 'object'
function equals(a, b, strict) {
  if (Object.is(a, b)) return true
  if (typeof a === 'number' && typeof b === 'number' && a === b) return !strict || Object.is(a, b)
  if (!isObj(a) || !isObj(b)) return false
  if (Array.isArray(a) !== Array.isArray(b)) return false
  if (Array.isArray(a)) {
    if (a.length !== b.length) return false
    for (let i = 0; i < a.length; i += 1) if (!equals(a[i], b[i], strict)) return false
    return true
  }
  const ka = Object.keys(a).filter((k) => strict || a[k] !== undefined)
  const kb = Object.keys(b).filter((k) => strict || b[k] !== undefined)
  if (ka.length !== kb.length) return false
  for (const k of ka) if (!equals(a[k], b[k], strict)) return false
  return true
}
const show = (v) => {
  try {
    const s = JSON.stringify(v)
    return s === undefined ? String(v) : s.slice(0, 300)
  } catch (e) {
    return String(v)
  }
}
function expect(actual) {
  const mk = (neg) => {
    const check = (ok, msg) => {
      if (ok === neg) throw new Error(`expect${neg ? '.not' : ''} failed: ${msg}`)
    }
    return {
      toBe: (e) => check(Object.is(actual, e), `${show(actual)} toBe ${show(e)}`),
      toEqual: (e) => check(equals(actual, e, false), `${show(actual)} toEqual ${show(e)}`),
      toStrictEqual: (e) => check(equals(actual, e, true), `${show(actual)} toStrictEqual ${show(e)}`),
      toBeUndefined: () => check(actual === undefined, `${show(actual)} toBeUndefined`),
      toBeNull: () => check(actual === null, `${show(actual)} toBeNull`),
      toBeTruthy: () => check(!!actual, `${show(actual)} toBeTruthy`),
      toBeFalsy: () => check(!actual, `${show(actual)} toBeFalsy`),
      toBeInstanceOf: (c) => check(actual instanceof c, `toBeInstanceOf ${c && c.name}`),
      toHaveLength: (n) => check(actual && actual.length === n, `${show(actual)} toHaveLength ${n}`),
      toBeGreaterThan: (n) => check(actual > n, `${show(actual)} > ${n}`),
      toBeLessThan: (n) => check(actual < n, `${show(actual)} < ${n}`),
      toContain: (x) => check(actual && actual.includes(x), `${show(actual)} toContain ${show(x)}`),
      toMatchObject: (e) => {
        const sub = (a, b) => (isObj(b) ? isObj(a) && Object.keys(b).every((k) => sub(a[k], b[k])) : equals(a, b, false))
        check(sub(actual, e), `${show(actual)} toMatchObject ${show(e)}`)
      },
      toThrow: () => {
        let threw = false
        try {
          actual()
        } catch (e) {
          threw = true
        }
        check(threw, 'toThrow')
      },
      toHaveBeenCalledTimes: (n) => check(actual.mock && actual.mock.calls.length === n, `toHaveBeenCalledTimes ${n}`),
      toHaveBeenCalled: () => check(actual.mock && actual.mock.calls.length > 0, 'toHaveBeenCalled'),
    }
  }
  const r = mk(false)
  r.not = mk(true)
  return new Proxy(r, {
    get(t, k) {
      if (k in t) return t[k]
      throw new Unsupported('matcher ' + String(k))
    },
  })
}
const jestShim = {
  fn: (impl) => {
    const f = (...a) => {
      f.mock.calls.push(a)
      return impl ? impl(...a) : undefined
    }
    f.mock = { calls: [] }
    return f
  },
}
const execWithWarn = (expectCount, func) => {
  let count = 0
  const l = () => {
    count += 1
    return false
  }
  glassEasel.removeGlobalWarningListener(warningThrow)
  glassEasel.addGlobalWarningListener(l)
  try {
    return func()
  } finally {
    glassEasel.removeGlobalWarningListener(l)
    glassEasel.addGlobalWarningListener(warningThrow)
    expect(count).toBe(expectCount)
  }
}
const execWithError = (func, ...errors) => {
  let count = 0
  const l = (err) => {
    if (count >= errors.length) return true
    expect(err).toBeInstanceOf(Error)
    expect(err.message).toBe(errors[count])
    count += 1
    return false
  }
  glassEasel.addGlobalErrorListener(l)
  try {
    return func()
  } catch (e) {
    l(e)
    return undefined
  } finally {
    glassEasel.removeGlobalErrorListener(l)
    expect(count).toBe(errors.length)
  }
}

// ---------------------------------------------------------------- run one jest file
const results = []
function runFile(rel) {
  let src = readFileSync(path.join(TESTS, rel), 'utf8')
  src = stripTypeScriptTypes(src, { mode: 'transform' })
  src = src.replace(/^import[\s\S]*?from\s*['"][^'"]+['"];?\s*$/gm, '')
  // the local DOM-based helper is replaced by the DOM-less one
  src = src.replace(/const domHtml\s*=[\s\S]*?innerHTML;?\s*\n\s*\};?/, 'const domHtml = __domHtml;')
  const stack = []
  const tests = []
  const describe = (name, f) => {
    stack.push(name)
    try {
      f()
    } finally {
      stack.pop()
    }
  }
  const test = (name, f) => tests.push({ name: [...stack, name].join(' > '), f })
  test.skip = () => {}
  describe.skip = () => {}
  const hooks = { beforeEach: [], afterEach: [] }
  const composedBackend = new glassEasel.EmptyComposedBackendContext()
  const shadowBackend = new glassEasel.EmptyBackendContext()
  const fn = new Function(
    'glassEasel', 'tmpl', 'multiTmpl', 'domBackend', 'composedBackend', 'shadowBackend', 'execWithWarn', 'execWithError', 'matchElementWithDom', 'describe', 'test', 'it', 'expect', 'jest', '__domHtml', 'beforeEach', 'afterEach', 'beforeAll', 'afterAll',
    src,
  )
  fn(glassEasel, tmpl, multiTmpl, composedBackend, composedBackend, shadowBackend, execWithWarn, execWithError, () => {}, describe, test, test, expect, jestShim, domHtml, (f) => hooks.beforeEach.push(f), (f) => hooks.afterEach.push(f), (f) => f(), () => {})
  for (const t of tests) {
    let status = 'pass'
    let msg = ''
    try {
      for (const h of hooks.beforeEach) h()
      const r = t.f()
      if (r && typeof r.then === 'function') {
        status = 'skip'
        msg = 'async test'
      }
      for (const h of hooks.afterEach) h()
    } catch (e) {
      if (e instanceof Unsupported) {
        status = 'skip'
        msg = e.message
      } else {
        status = 'fail'
        msg = String(e && e.message).slice(0, 300)
      }
    }
    results.push({ file: rel, name: t.name, status, msg })
  }
}

const files = ['tmpl/structure.test.ts', 'tmpl/binding_map.test.ts', 'tmpl/lvalue.test.ts', 'tmpl/expression.test.ts', 'tmpl/event.test.ts', 'core/slot.test.ts', 'core/data_update.test.ts', 'core/data_proxy.test.ts', 'core/placeholder.test.ts']
for (const f of files) {
  try {
    runFile(f)
  } catch (e) {
    results.push({ file: f, name: '(file)', status: 'fail', msg: 'file does not evaluate: ' + String(e && e.message).slice(0, 300) })
  }
}
const allow = JSON.parse(readFileSync(path.join(path.dirname(fileURLToPath(import.meta.url)), 'conformance_allow.json'), 'utf8'))
const allowed = new Set(allow.expected_failures.map((x) => x.file + ' :: ' + x.name))
const pass = results.filter((r) => r.status === 'pass').length
const skip = results.filter((r) => r.status === 'skip').length
const fails = results.filter((r) => r.status === 'fail')
const unexpected = fails.filter((r) => !allowed.has(r.file + ' :: ' + r.name))
const stalePass = results.filter((r) => r.status === 'pass' && allowed.has(r.file + ' :: ' + r.name))
if (process.env.CONF_VERBOSE) for (const r of results) if (r.status !== 'pass') console.log(`${r.status.toUpperCase()} ${r.file} :: ${r.name} -- ${r.msg}`)
console.log(`CONFORMANCE files=${files.length} tests=${results.length} pass=${pass} skip=${skip} expected_failures=${fails.length - unexpected.length} unexpected_failures=${unexpected.length} min_pass=${allow.min_pass}`)
for (const r of unexpected) console.log(`UNEXPECTED-FAIL ${r.file} :: ${r.name} -- ${r.msg}`)
for (const r of stalePass) console.log(`NOTE allowlisted test now passes: ${r.file} :: ${r.name}`)
process.exit(unexpected.length === 0 && pass >= allow.min_pass ? 0 : 2)
