// ESM loader that runs glass-easel/src/**/*.ts from the working tree without tsc:
// strips types (node:module stripTypeScriptTypes, transform mode), inlines `const enum` members,
// and reproduces tsc's import elision (type-only imports / re-exports), without which the module
// graph has cycles that hit TDZ errors. Part of the trusted base; smoke- and conformance-tested.
import { existsSync, statSync, readFileSync, readdirSync } from 'node:fs'
import { fileURLToPath, pathToFileURL } from 'node:url'
import { stripTypeScriptTypes } from 'node:module'
import path from 'node:path'

const SRC_ROOT = path.join(process.env.GE_RT_ROOT || process.env.GE_REPO_DIR || '/repo', 'glass-easel', 'src')

function resolveTs(base, specifier) {
  const p = path.resolve(base, specifier)
  if (existsSync(p + '.ts')) return p + '.ts'
  if (existsSync(p) && statSync(p).isDirectory() && existsSync(path.join(p, 'index.ts'))) return path.join(p, 'index.ts')
  return null
}

export async function resolve(specifier, context, nextResolve) {
  if ((specifier.startsWith('.') || specifier.startsWith('/')) && context.parentURL && context.parentURL.startsWith('file:')) {
    const base = path.dirname(fileURLToPath(context.parentURL))
    const r = resolveTs(base, specifier)
    if (r) return { url: pathToFileURL(r).href, shortCircuit: true }
  }
  return nextResolve(specifier, context)
}

function hasValueExport(file, name, seen = new Set()) {
  if (seen.has(file)) return false
  seen.add(file)
  const src = readFileSync(file, 'utf8')
  const re = new RegExp('export\\s+(?:declare\\s+)?(?:abstract\\s+)?(?:const\\s+enum|enum|const|let|var|class|function|async\\s+function)\\s+' + name + '\\b')
  if (re.test(src)) return true
  const re2 = /export\s*\{([^}]*)\}\s*(?:from\s*['"]([^'"]+)['"])?/g
  let m
  while ((m = re2.exec(src))) {
    const names = m[1].split(',').map((s) => s.trim()).filter(Boolean)
    for (const n of names) {
      if (n.startsWith('type ')) continue
      const parts = n.split(/\s+as\s+/)
      const exported = parts[1] || parts[0]
      if (exported !== name) continue
      if (m[2]) {
        const t = resolveTs(path.dirname(file), m[2])
        if (t && hasValueExport(t, parts[0], seen)) return true
      } else {
        const re3 = new RegExp('(?:^|\\n)\\s*(?:const|let|var|class|function|enum)\\s+' + parts[0] + '\\b')
        if (re3.test(src)) return true
      }
    }
  }
  return false
}

let CONST_ENUMS = null
function scanConstEnums(root) {
  const map = new Map()
  const walk = (d) => {
    for (const e of readdirSync(d, { withFileTypes: true }).sort((a, b) => (a.name < b.name ? -1 : 1))) {
      const p = path.join(d, e.name)
      if (e.isDirectory()) walk(p)
      else if (p.endsWith('.ts')) {
        const src = readFileSync(p, 'utf8')
        const re = /const\s+enum\s+(\w+)\s*\{([^}]*)\}/g
        let m
        while ((m = re.exec(src))) {
          const body = m[2].replace(/\/\*[\s\S]*?\*\//g, '').replace(/\/\/.*$/gm, '')
          let next = 0
          const members = new Map()
          for (const item of body.split(',').map((x) => x.trim()).filter(Boolean)) {
            const mm = /^(\w+)\s*(?:=\s*([\s\S]+))?$/.exec(item)
            if (!mm) throw new Error('bad const enum member ' + item + ' in ' + p)
            let v
            if (mm[2] !== undefined) {
              v = mm[2].trim()
              if (/^-?\d+$/.test(v)) next = Number(v) + 1
            } else {
              v = String(next)
              next += 1
            }
            members.set(mm[1], v)
          }
          if (map.has(m[1])) throw new Error('duplicate const enum ' + m[1])
          map.set(m[1], members)
        }
      }
    }
  }
  walk(root)
  return map
}

function transform(file, src) {
  // 1. re-exports: keep only value exports of the target
  src = src.replace(/export\s*\{([^}]*)\}\s*from\s*['"]([^'"]+)['"]/g, (all, list, spec) => {
    const t = resolveTs(path.dirname(file), spec)
    if (!t) return all
    const kept = list.split(',').map((s) => s.trim()).filter(Boolean).filter((n) => {
      if (n.startsWith('type ')) return false
      const orig = n.split(/\s+as\s+/)[0]
      return hasValueExport(t, orig)
    })
    if (!kept.length) return ''
    return `export { ${kept.join(', ')} } from '${spec}'`
  })
  // 2. strip types
  let out = stripTypeScriptTypes(src, { mode: 'transform' })
  // 3. inline const enums
  if (!CONST_ENUMS) CONST_ENUMS = scanConstEnums(SRC_ROOT)
  for (const [name, members] of CONST_ENUMS) {
    out = out.replace(new RegExp('(^|[^\\w$.])' + name + '\\.(\\w+)(?![\\w$])', 'g'), (all, pre, mem) => (members.has(mem) ? `${pre}(${members.get(mem)})` : all))
    // (the repository's test helpers reach them through a namespace import)
    out = out.replace(new RegExp('(^|[^\\w$.])glassEasel\\.' + name + '\\.(\\w+)(?![\\w$])', 'g'), (all, pre, mem) => (members.has(mem) ? `${pre}(${members.get(mem)})` : all))
  }
  // 4. bare side-effect imports produced by stripping all-type imports
  out = out.replace(/^import\s+['"][^'"]+['"];?\s*$/gm, '')
  // 5. import elision: drop named imports not referenced as values
  out = out.replace(/import\s*\{([^}]*)\}\s*from\s*(['"][^'"]+['"])/g, (all, list, spec) => {
    const rest = out.replace(all, '')
    const kept = list.split(',').map((s) => s.trim()).filter(Boolean).filter((n) => {
      const local = (n.split(/\s+as\s+/)[1] || n).trim()
      return new RegExp('(^|[^\\w$.])' + local.replace(/\$/g, '\\$') + '(?![\\w$])').test(rest)
    })
    if (!kept.length) return ''
    return `import { ${kept.join(', ')} } from ${spec}`
  })
  return out
}

export async function load(url, context, nextLoad) {
  if (url.startsWith('file:') && url.endsWith('.ts')) {
    const file = fileURLToPath(url)
    const src = readFileSync(file, 'utf8')
    return { format: 'module', source: transform(file, src), shortCircuit: true }
  }
  return nextLoad(url, context)
}
