#!/usr/bin/env python3
"""Sensitivity self-test: every patch under /verif/mutants/*/ and /verif/seeded/*/ (a change to
/repo that breaks one property while compiling and passing the baseline tests) is applied to /repo,
the quick check of the property it breaks is run and must exit 1 with a VIOLATION line, and the
patch is reverted straight afterwards. The unchanged tree must stay silent. Exit 0 = all caught."""
import glob, json, os, subprocess, sys, time

VERIF = os.path.dirname(os.path.abspath(__file__))
REPO = os.environ.get('GE_REPO_DIR', '/repo')

def sh(cmd, cwd=None, timeout=3600):
    return subprocess.run(cmd, shell=True, capture_output=True, text=True, cwd=cwd, timeout=timeout)

def main():
    only = [a for a in sys.argv[1:] if not a.startswith('--')]
    tier = 'thorough' if '--thorough' in sys.argv else 'quick'
    if sh(f'git -C {REPO} status --porcelain').stdout.strip():
        print('HARNESS-ERROR: /repo working tree is not clean'); return 2
    results = []
    # the checks rewrite evidence/<id>.json; keep the evidence of the unchanged tree
    import shutil, tempfile
    backup = tempfile.mkdtemp(prefix='ge-evidence-')
    for f in glob.glob(os.path.join(VERIF, 'evidence', 'C*.json')):
        shutil.copy(f, backup)
    dirs = sorted(glob.glob(os.path.join(VERIF, 'mutants', '*', 'patch.diff')) + glob.glob(os.path.join(VERIF, 'seeded', '*', 'patch.diff')))
    missed = 0
    for patch in dirs:
        d = os.path.dirname(patch)
        name = os.path.relpath(d, VERIF)
        if only and not any(o in name for o in only): continue
        meta = json.load(open(os.path.join(d, 'meta.json')))
        props = meta['property'] if isinstance(meta['property'], list) else [meta['property']]
        ap = sh(f'git -C {REPO} apply {patch}')
        if ap.returncode != 0:
            print(f'{name}: patch does not apply: {ap.stderr.strip()[:200]}'); results.append({'mutant': name, 'status': 'patch_does_not_apply'}); missed += 1; continue
        try:
            caught_by = []
            for prop in props:
                t0 = time.time()
                r = sh(f'./check {prop} --tier {tier}', cwd=VERIF)
                viol = [l for l in r.stdout.splitlines() if l.startswith('VIOLATION ')]
                classes = [l for l in r.stdout.splitlines() if ' violation class=' in l]
                if r.returncode == 1 and viol:
                    caught_by.append({'check': prop, 'wall_s': round(time.time() - t0, 1), 'violation': viol[0], 'class': classes[0][:160] if classes else ''})
                elif r.returncode == 2:
                    caught_by.append({'check': prop, 'harness_error': r.stdout.strip().splitlines()[-1][:200] if r.stdout.strip() else ''})
            ok = any('violation' in c for c in caught_by)
            if not ok: missed += 1
            print(f"{name}: {'CAUGHT' if ok else 'MISSED'} {json.dumps(caught_by)[:300]}")
            results.append({'mutant': name, 'property': props, 'needs': meta.get('needs', meta.get('needs_to_manifest', '')), 'status': 'caught' if ok else 'missed', 'by': caught_by})
        finally:
            sh(f'git -C {REPO} checkout -- .')
    for f in glob.glob(os.path.join(backup, 'C*.json')):
        shutil.copy(f, os.path.join(VERIF, 'evidence'))
    shutil.rmtree(backup, ignore_errors=True)
    json.dump({'tier': tier, 'results': results, 'missed': missed}, open(os.path.join(VERIF, 'evidence', 'selftest_mutants.json'), 'w'), indent=1)
    print(f'mutants: {len(results)} run, {missed} missed')
    return 0 if missed == 0 else 1

sys.exit(main())
